// url.go: the URL record, the URL serializer and the API getters and setters
// (Appendix A.3 "Serializer" and A.4).
package whatwgmodel

// URL is a URL record.
type URL struct {
	Scheme      string
	Username    string
	Password    string
	HasHost     bool   // false = null host
	Host        string // serialized host ("" = empty host when HasHost)
	HasPort     bool   // false = null port
	Port        int
	Opaque      bool // path is an opaque string
	OpaquePath  string
	Path        []string // segments when !Opaque
	HasQuery    bool
	Query       string
	HasFragment bool
	Fragment    string
}

// Parse runs the basic URL parser without state override. base may be nil.
// ok = false means failure.
func Parse(input string, base *URL) (u *URL, ok bool) {
	return basicParse(input, base, nil, stNone)
}

// clonePath returns a copy of a list of path segments.
func clonePath(path []string) []string {
	out := make([]string, len(path))
	copy(out, path)
	return out
}

// Clone returns a deep copy of u.
func (u *URL) Clone() *URL {
	c := new(URL)
	c.Scheme = u.Scheme
	c.Username = u.Username
	c.Password = u.Password
	c.HasHost = u.HasHost
	c.Host = u.Host
	c.HasPort = u.HasPort
	c.Port = u.Port
	c.Opaque = u.Opaque
	c.OpaquePath = u.OpaquePath
	c.Path = clonePath(u.Path)
	c.HasQuery = u.HasQuery
	c.Query = u.Query
	c.HasFragment = u.HasFragment
	c.Fragment = u.Fragment
	return c
}

// ---- scheme helpers ---------------------------------------------------------------

// isSpecialScheme: ftp, file, http, https, ws, wss.
func isSpecialScheme(s string) bool {
	return s == "ftp" || s == "file" || s == "http" || s == "https" || s == "ws" || s == "wss"
}

// defaultPort is the default port of a special scheme (ok = false: none).
func defaultPort(scheme string) (int, bool) {
	if scheme == "ftp" {
		return 21, true
	}
	if scheme == "http" {
		return 80, true
	}
	if scheme == "https" {
		return 443, true
	}
	if scheme == "ws" {
		return 80, true
	}
	if scheme == "wss" {
		return 443, true
	}
	return 0, false
}

// isDefaultPort reports whether port is the default port of scheme.
func isDefaultPort(scheme string, port int) bool {
	d, ok := defaultPort(scheme)
	return ok && d == port
}

// IsSpecial reports whether u's scheme is a special scheme.
func (u *URL) IsSpecial() bool {
	return isSpecialScheme(u.Scheme)
}

// includesCredentials: username or password is not the empty string.
func (u *URL) includesCredentials() bool {
	return u.Username != "" || u.Password != ""
}

// cannotHaveUsernamePasswordPort: host null or empty, or scheme file.
func (u *URL) cannotHaveUsernamePasswordPort() bool {
	return !u.HasHost || u.Host == "" || u.Scheme == "file"
}

// ---- path helpers -------------------------------------------------------------------

// isNormalizedWindowsDriveLetterString: ASCII alpha followed by ":".
func isNormalizedWindowsDriveLetterString(s string) bool {
	return len(s) == 2 && isASCIIAlpha(rune(s[0])) && s[1] == ':'
}

// shortenPath is "shorten a url's path".
func (u *URL) shortenPath() {
	if u.Opaque {
		return
	}
	if u.Scheme == "file" && len(u.Path) == 1 && isNormalizedWindowsDriveLetterString(u.Path[0]) {
		return
	}
	if len(u.Path) > 0 {
		u.Path = u.Path[:len(u.Path)-1]
	}
}

// stripTrailingSpacesFromOpaquePath is "potentially strip trailing spaces from
// an opaque path".
func (u *URL) stripTrailingSpacesFromOpaquePath() {
	if !u.Opaque {
		return
	}
	if u.HasFragment {
		return
	}
	if u.HasQuery {
		return
	}
	n := len(u.OpaquePath)
	for n > 0 && u.OpaquePath[n-1] == 0x20 {
		n = n - 1
	}
	u.OpaquePath = u.OpaquePath[:n]
}

// ---- serializer ---------------------------------------------------------------------

// Pathname is the URL path serializer.
func (u *URL) Pathname() string {
	if u.Opaque {
		return u.OpaquePath
	}
	output := ""
	for i := 0; i < len(u.Path); i++ {
		output = output + "/" + u.Path[i]
	}
	return output
}

// Href is the URL serializer.
func (u *URL) Href(excludeFragment bool) string {
	output := u.Scheme + ":"
	if u.HasHost {
		output = output + "//"
		if u.includesCredentials() {
			output = output + u.Username
			if u.Password != "" {
				output = output + ":" + u.Password
			}
			output = output + "@"
		}
		output = output + u.Host
		if u.HasPort {
			output = output + ":" + itoa(u.Port)
		}
	}
	if !u.HasHost && !u.Opaque && len(u.Path) > 1 && u.Path[0] == "" {
		output = output + "/."
	}
	output = output + u.Pathname()
	if u.HasQuery {
		output = output + "?" + u.Query
	}
	if !excludeFragment && u.HasFragment {
		output = output + "#" + u.Fragment
	}
	return output
}

// ---- getters ------------------------------------------------------------------------

func (u *URL) Protocol() string {
	return u.Scheme + ":"
}

func (u *URL) GetUsername() string {
	return u.Username
}

func (u *URL) GetPassword() string {
	return u.Password
}

func (u *URL) GetHost() string {
	if !u.HasHost {
		return ""
	}
	if !u.HasPort {
		return u.Host
	}
	return u.Host + ":" + itoa(u.Port)
}

func (u *URL) Hostname() string {
	if !u.HasHost {
		return ""
	}
	return u.Host
}

func (u *URL) GetPort() string {
	if !u.HasPort {
		return ""
	}
	return itoa(u.Port)
}

func (u *URL) Search() string {
	if !u.HasQuery || u.Query == "" {
		return ""
	}
	return "?" + u.Query
}

func (u *URL) Hash() string {
	if !u.HasFragment || u.Fragment == "" {
		return ""
	}
	return "#" + u.Fragment
}

// ---- setters ------------------------------------------------------------------------

// SetProtocol: basic URL parse v + ":" with scheme start state override.
func (u *URL) SetProtocol(v string) {
	basicParse(v+":", nil, u, stSchemeStart)
}

// SetUsername: nothing if u cannot have a username; otherwise "set the username".
func (u *URL) SetUsername(v string) {
	if u.cannotHaveUsernamePasswordPort() {
		return
	}
	u.Username = UTF8PercentEncodeString(v, SetUserinfo)
}

// SetPassword: nothing if u cannot have a password; otherwise "set the password".
func (u *URL) SetPassword(v string) {
	if u.cannotHaveUsernamePasswordPort() {
		return
	}
	u.Password = UTF8PercentEncodeString(v, SetUserinfo)
}

// SetHost: nothing for an opaque path; basic URL parse with host state override.
func (u *URL) SetHost(v string) {
	if u.Opaque {
		return
	}
	basicParse(v, nil, u, stHost)
}

// SetHostname: nothing for an opaque path; basic URL parse with hostname state
// override.
func (u *URL) SetHostname(v string) {
	if u.Opaque {
		return
	}
	basicParse(v, nil, u, stHostname)
}

// SetPort: nothing if u cannot have a port; "" sets the port to null; otherwise
// basic URL parse with port state override.
func (u *URL) SetPort(v string) {
	if u.cannotHaveUsernamePasswordPort() {
		return
	}
	if v == "" {
		u.HasPort = false
		u.Port = 0
		return
	}
	basicParse(v, nil, u, stPort)
}

// SetPathname: nothing for an opaque path; empty the path; basic URL parse with
// path start state override.
func (u *URL) SetPathname(v string) {
	if u.Opaque {
		return
	}
	u.Path = make([]string, 0, 4)
	basicParse(v, nil, u, stPathStart)
}

// SetSearch: "" sets the query to null (and potentially strips trailing spaces
// from an opaque path); otherwise one leading "?" is removed, the query is set
// to "" and the value is parsed with query state override.
func (u *URL) SetSearch(v string) {
	if v == "" {
		u.HasQuery = false
		u.Query = ""
		u.stripTrailingSpacesFromOpaquePath()
		return
	}
	input := v
	if input[0] == '?' {
		input = input[1:]
	}
	u.HasQuery = true
	u.Query = ""
	basicParse(input, nil, u, stQuery)
}

// SetHash: "" sets the fragment to null (and potentially strips trailing spaces
// from an opaque path); otherwise one leading "#" is removed, the fragment is
// set to "" and the value is parsed with fragment state override.
func (u *URL) SetHash(v string) {
	if v == "" {
		u.HasFragment = false
		u.Fragment = ""
		u.stripTrailingSpacesFromOpaquePath()
		return
	}
	input := v
	if input[0] == '#' {
		input = input[1:]
	}
	u.HasFragment = true
	u.Fragment = ""
	basicParse(input, nil, u, stFragment)
}
