// host.go: Appendix A.2 - host parser, IPv4 and IPv6 parsers and serializers.
package whatwgmodel

import "github.com/nlnwa/whatwg-url/internal/vnd"

// ipv4Cap is the saturation bound of the IPv4 number parser. Every limit the
// IPv4 parser compares against is at most 256^4 = 2^32 < 2^40, so a saturated
// value behaves exactly like the mathematical integer it stands for.
const ipv4Cap uint64 = 1 << 40

// ParseHost is the host parser. It returns the SERIALIZED host: an IPv6 address
// in brackets, an IPv4 address in dotted decimal, a domain or an opaque host.
func ParseHost(input string, isOpaque bool) (host string, ok bool) {
	return parseHostRunes([]rune(input), isOpaque)
}

func parseHostRunes(input []rune, isOpaque bool) (string, bool) {
	// 1. Leading "[": IPv6.
	if len(input) > 0 && input[0] == '[' {
		if input[len(input)-1] != ']' {
			return "", false
		}
		addr, ok6 := ParseIPv6(input[1 : len(input)-1])
		if !ok6 {
			return "", false
		}
		return "[" + SerializeIPv6(addr) + "]", true
	}
	// 2. Opaque host.
	if isOpaque {
		return parseOpaqueHost(input)
	}
	// 3. domain = UTF-8 decode (invalid -> U+FFFD) of percent-decode(input).
	decoded := PercentDecode(string(input))
	domain := []rune(decoded)
	// 4. domain to ASCII.
	asciiDomain, okA := domainToASCII(domain)
	if !okA {
		return "", false
	}
	// 5. Forbidden domain code points.
	for i := 0; i < len(asciiDomain); i++ {
		if isForbiddenDomainCP(rune(asciiDomain[i])) {
			return "", false
		}
	}
	// 6. Ends in a number: IPv4.
	if EndsInANumber(asciiDomain) {
		addr, ok4 := ParseIPv4(asciiDomain)
		if !ok4 {
			return "", false
		}
		return SerializeIPv4(addr), true
	}
	// 7. Domain.
	return asciiDomain, true
}

// parseOpaqueHost: any forbidden host code point is failure; otherwise every
// code point is UTF-8 percent-encoded with the C0 control set.
func parseOpaqueHost(input []rune) (string, bool) {
	for i := 0; i < len(input); i++ {
		if isForbiddenHostCP(input[i]) {
			return "", false
		}
	}
	return utf8PercentEncodeRunes(input, SetC0), true
}

// allASCII reports whether every code point is below U+0080.
func allASCII(rs []rune) bool {
	for i := 0; i < len(rs); i++ {
		if rs[i] < 0 || rs[i] >= 0x80 {
			return false
		}
	}
	return true
}

// isACEPrefixAt reports whether the label starting at index i begins with
// "xn--" (ASCII case-insensitive).
func isACEPrefixAt(rs []rune, i int) bool {
	if i+3 >= len(rs) {
		return false
	}
	return (rs[i] == 'x' || rs[i] == 'X') && (rs[i+1] == 'n' || rs[i+1] == 'N') && rs[i+2] == '-' && rs[i+3] == '-'
}

// hasACELabel reports whether some dot-separated label starts with "xn--".
func hasACELabel(rs []rune) bool {
	for i := 0; i < len(rs); i++ {
		if i == 0 || rs[i-1] == '.' {
			if isACEPrefixAt(rs, i) {
				return true
			}
		}
	}
	return false
}

// domainToASCII is "domain to ASCII" with beStrict = false. For ASCII input
// without ACE labels UTS-46 processing is ASCII lower-casing; everything else is
// delegated to vnd.DomainToASCII. Failure or an empty result is failure.
func domainToASCII(domain []rune) (string, bool) {
	if allASCII(domain) && !hasACELabel(domain) {
		out := make([]byte, len(domain))
		for i := 0; i < len(domain); i++ {
			out[i] = byte(asciiLowerRune(domain[i]))
		}
		if len(out) == 0 {
			return "", false
		}
		return string(out), true
	}
	res, ok := vnd.DomainToASCII(string(domain))
	if !ok {
		return "", false
	}
	if len(res) == 0 {
		return "", false
	}
	return res, true
}

// ---- IPv4 ----------------------------------------------------------------------------

// allASCIIDigits reports whether s is made of ASCII digits only (true for "").
func allASCIIDigits(s string) bool {
	for i := 0; i < len(s); i++ {
		if !isASCIIDigit(rune(s[i])) {
			return false
		}
	}
	return true
}

// EndsInANumber is the "ends in a number" checker.
func EndsInANumber(s string) bool {
	parts := splitOnByte(s, '.')
	if parts[len(parts)-1] == "" {
		if len(parts) == 1 {
			return false
		}
		parts = parts[:len(parts)-1]
	}
	last := parts[len(parts)-1]
	if last != "" && allASCIIDigits(last) {
		return true
	}
	_, ok := parseIPv4Number(last)
	if ok {
		return true
	}
	return false
}

// isRadixDigit reports whether b is a digit of radix 8, 10 or 16.
func isRadixDigit(b byte, radix uint64) bool {
	if radix == 8 {
		return isOctalDigit(rune(b))
	}
	if radix == 10 {
		return isASCIIDigit(rune(b))
	}
	return isHexDigit(rune(b))
}

// parseIPv4Number is the IPv4 number parser. The result is the mathematical
// integer, saturated at ipv4Cap (no wrap-around is possible).
func parseIPv4Number(input string) (uint64, bool) {
	if input == "" {
		return 0, false
	}
	var radix uint64 = 10
	if len(input) >= 2 && input[0] == '0' && (input[1] == 'x' || input[1] == 'X') {
		input = input[2:]
		radix = 16
	} else if len(input) >= 2 && input[0] == '0' {
		input = input[1:]
		radix = 8
	}
	if input == "" {
		return 0, true
	}
	var value uint64 = 0
	for i := 0; i < len(input); i++ {
		if !isRadixDigit(input[i], radix) {
			return 0, false
		}
		// value <= 2^40 here, so value*16+15 < 2^45: no overflow.
		value = value*radix + uint64(hexValue(rune(input[i])))
		if value > ipv4Cap {
			value = ipv4Cap
		}
	}
	return value, true
}

// ParseIPv4 is the IPv4 parser.
func ParseIPv4(s string) (addr uint32, ok bool) {
	parts := splitOnByte(s, '.')
	if parts[len(parts)-1] == "" {
		if len(parts) > 1 {
			parts = parts[:len(parts)-1]
		}
	}
	if len(parts) > 4 {
		return 0, false
	}
	numbers := make([]uint64, 0, 4)
	for i := 0; i < len(parts); i++ {
		n, okN := parseIPv4Number(parts[i])
		if !okN {
			return 0, false
		}
		numbers = append(numbers, n)
	}
	// Any number except the last greater than 255 is failure.
	for i := 0; i+1 < len(numbers); i++ {
		if numbers[i] > 255 {
			return 0, false
		}
	}
	// last >= 256^(5 - count) is failure.
	var limit uint64 = 1
	for i := 0; i < 5-len(numbers); i++ {
		limit = limit * 256
	}
	last := numbers[len(numbers)-1]
	if last >= limit {
		return 0, false
	}
	ipv4 := last
	for i := 0; i+1 < len(numbers); i++ {
		var weight uint64 = 1
		for j := 0; j < 3-i; j++ {
			weight = weight * 256
		}
		ipv4 = ipv4 + numbers[i]*weight
	}
	return uint32(ipv4), true
}

// SerializeIPv4: four decimal octets, most significant first, joined by ".".
func SerializeIPv4(addr uint32) string {
	return itoa(int((addr>>24)&0xFF)) + "." + itoa(int((addr>>16)&0xFF)) + "." +
		itoa(int((addr>>8)&0xFF)) + "." + itoa(int(addr&0xFF))
}

// ---- IPv6 ----------------------------------------------------------------------------

// runeAt is the code point at index i, or eof past the end.
func runeAt(input []rune, i int) rune {
	if i < 0 || i >= len(input) {
		return eof
	}
	return input[i]
}

// ParseIPv6 is the IPv6 parser (input without the brackets).
func ParseIPv6(input []rune) (addr [8]uint16, ok bool) {
	var address [8]uint16
	var zero [8]uint16
	pieceIndex := 0
	compress := -1 // null
	pointer := 0

	if runeAt(input, pointer) == ':' {
		if runeAt(input, pointer+1) != ':' {
			return zero, false
		}
		pointer = pointer + 2
		pieceIndex = pieceIndex + 1
		compress = pieceIndex
	}

	for runeAt(input, pointer) != eof {
		if pieceIndex == 8 {
			return zero, false
		}
		if runeAt(input, pointer) == ':' {
			if compress != -1 {
				return zero, false
			}
			pointer = pointer + 1
			pieceIndex = pieceIndex + 1
			compress = pieceIndex
			continue
		}
		value := 0
		length := 0
		for length < 4 && isHexDigit(runeAt(input, pointer)) {
			value = value*0x10 + hexValue(runeAt(input, pointer))
			pointer = pointer + 1
			length = length + 1
		}
		if runeAt(input, pointer) == '.' {
			if length == 0 {
				return zero, false
			}
			pointer = pointer - length
			if pieceIndex > 6 {
				return zero, false
			}
			numbersSeen := 0
			for runeAt(input, pointer) != eof {
				ipv4Piece := -1 // null
				if numbersSeen > 0 {
					if runeAt(input, pointer) == '.' && numbersSeen < 4 {
						pointer = pointer + 1
					} else {
						return zero, false
					}
				}
				if !isASCIIDigit(runeAt(input, pointer)) {
					return zero, false
				}
				for isASCIIDigit(runeAt(input, pointer)) {
					number := int(runeAt(input, pointer) - '0')
					if ipv4Piece == -1 {
						ipv4Piece = number
					} else if ipv4Piece == 0 {
						return zero, false
					} else {
						ipv4Piece = ipv4Piece*10 + number
					}
					if ipv4Piece > 255 {
						return zero, false
					}
					pointer = pointer + 1
				}
				address[pieceIndex] = uint16(int(address[pieceIndex])*0x100 + ipv4Piece)
				numbersSeen = numbersSeen + 1
				if numbersSeen == 2 || numbersSeen == 4 {
					pieceIndex = pieceIndex + 1
				}
			}
			if numbersSeen != 4 {
				return zero, false
			}
			break
		} else if runeAt(input, pointer) == ':' {
			pointer = pointer + 1
			if runeAt(input, pointer) == eof {
				return zero, false
			}
		} else if runeAt(input, pointer) != eof {
			return zero, false
		}
		address[pieceIndex] = uint16(value)
		pieceIndex = pieceIndex + 1
	}

	if compress != -1 {
		swaps := pieceIndex - compress
		pieceIndex = 7
		for pieceIndex != 0 && swaps > 0 {
			tmp := address[pieceIndex]
			address[pieceIndex] = address[compress+swaps-1]
			address[compress+swaps-1] = tmp
			pieceIndex = pieceIndex - 1
			swaps = swaps - 1
		}
	} else if pieceIndex != 8 {
		return zero, false
	}
	return address, true
}

// hex16 is v in lower-case hex without leading zeros.
func hex16(v uint16) string {
	d3 := byte((v >> 12) & 0x0F)
	d2 := byte((v >> 8) & 0x0F)
	d1 := byte((v >> 4) & 0x0F)
	d0 := byte(v & 0x0F)
	out := make([]byte, 0, 4)
	if d3 != 0 {
		out = append(out, hexLowerDigit(d3))
	}
	if d3 != 0 || d2 != 0 {
		out = append(out, hexLowerDigit(d2))
	}
	if d3 != 0 || d2 != 0 || d1 != 0 {
		out = append(out, hexLowerDigit(d1))
	}
	out = append(out, hexLowerDigit(d0))
	return string(out)
}

// findIPv6Compress is the index of the first longest run of two or more
// consecutive zero pieces, or -1.
func findIPv6Compress(addr [8]uint16) int {
	best := -1
	bestLen := 1
	i := 0
	for i < 8 {
		if addr[i] != 0 {
			i = i + 1
			continue
		}
		j := i
		for j < 8 && addr[j] == 0 {
			j = j + 1
		}
		if j-i > bestLen {
			best = i
			bestLen = j - i
		}
		i = j
	}
	return best
}

// SerializeIPv6 is the IPv6 serializer (without brackets).
func SerializeIPv6(addr [8]uint16) string {
	output := ""
	compress := findIPv6Compress(addr)
	ignore0 := false
	for pieceIndex := 0; pieceIndex < 8; pieceIndex++ {
		if ignore0 && addr[pieceIndex] == 0 {
			continue
		} else if ignore0 {
			ignore0 = false
		}
		if compress == pieceIndex {
			if pieceIndex == 0 {
				output = output + "::"
			} else {
				output = output + ":"
			}
			ignore0 = true
			continue
		}
		output = output + hex16(addr[pieceIndex])
		if pieceIndex != 7 {
			output = output + ":"
		}
	}
	return output
}
