#!/usr/bin/env bash
# Native validation of the reference model against the WPT vectors in
# /repo/testdata (and, if `node` is installed, differentially against node's
# WHATWG URL). Nothing is written to /repo: the model and vnd are injected into
# the module through a build overlay kept in a temporary directory.
#
# `go test ./internal/whatwgmodel/` cannot be used directly: the package
# directory exists only in the overlay and `go test` (like `go vet`) wants to
# chdir into it. The test binary is therefore built with -c and run by hand.
#
#   ./run_native_tests.sh [-test.run REGEXP] [-test.v] ...
#   WHATWGMODEL_NODE_N=150000 WHATWGMODEL_NODE_SEED=7 ./run_native_tests.sh -test.run Node -test.v
set -euo pipefail
export GOFLAGS=-mod=mod GOPROXY=off GOSUMDB=off GOTOOLCHAIN=local

here="$(cd "$(dirname "$0")" && pwd)"
vnd="$(cd "$here/../vnd" && pwd)/vnd.go"
tmp="$(mktemp -d /tmp/model-ov.XXXXXX)"
trap 'rm -rf "$tmp"' EXIT

{
  printf '{"Replace": {\n'
  printf '  "/repo/internal/vnd/vnd.go": "%s"' "$vnd"
  for f in "$here"/*.go; do
    printf ',\n  "/repo/internal/whatwgmodel/%s": "%s"' "$(basename "$f")" "$f"
  done
  printf '\n}}\n'
} > "$tmp/overlay.json"

(cd /repo && go test -c -vet=off -overlay "$tmp/overlay.json" -o "$tmp/model.test" ./internal/whatwgmodel/)
(cd "$tmp" && WHATWGMODEL_SRC="$here" ./model.test -test.count=1 "$@")

if [ -n "$(git -C /repo status --porcelain)" ]; then
  echo "ERROR: /repo is not clean" >&2
  exit 1
fi
