// Package whatwgmodel is an independent reference model of the WHATWG URL
// Standard (snapshot of 24 May 2023), transcribed from the standard's prose as
// recorded in /verif/DESIGN.md, Appendix A. It shares no code with the
// implementation under test and is written in a deliberately plain subset of Go
// so that it can be executed symbolically.
//
// sets.go: Appendix A.1 - code point classes, percent-encode sets, the
// percent-encoding codec and small ASCII helpers.
package whatwgmodel

// Percent-encode set identifiers.
const (
	SetC0 = iota
	SetFragment
	SetQuery
	SetSpecialQuery
	SetPath
	SetUserinfo
	SetComponent
	SetForm
)

// eof is the EOF code point of the state machines.
const eof rune = -1

// ---- code point classes ------------------------------------------------------

func isASCIIDigit(r rune) bool {
	return r >= '0' && r <= '9'
}

func isASCIIAlpha(r rune) bool {
	return (r >= 'a' && r <= 'z') || (r >= 'A' && r <= 'Z')
}

func isHexDigit(r rune) bool {
	return (r >= '0' && r <= '9') || (r >= 'a' && r <= 'f') || (r >= 'A' && r <= 'F')
}

func isOctalDigit(r rune) bool {
	return r >= '0' && r <= '7'
}

// isSchemeCP: ASCII alphanumeric, U+002B (+), U+002D (-) or U+002E (.).
func isSchemeCP(r rune) bool {
	return (r >= 'a' && r <= 'z') || (r >= 'A' && r <= 'Z') || (r >= '0' && r <= '9') || r == '+' || r == '-' || r == '.'
}

// isC0ControlOrSpace: U+0000 - U+0020.
func isC0ControlOrSpace(r rune) bool {
	return r >= 0 && r <= 0x20
}

// isTabOrNewline: U+0009, U+000A, U+000D.
func isTabOrNewline(r rune) bool {
	return r == 0x09 || r == 0x0A || r == 0x0D
}

// isForbiddenHostCP: U+0000, tab, LF, CR, space, #, /, :, <, >, ?, @, [, \, ], ^, |.
func isForbiddenHostCP(r rune) bool {
	return r == 0x00 || r == 0x09 || r == 0x0A || r == 0x0D || r == 0x20 ||
		r == '#' || r == '/' || r == ':' || r == '<' || r == '>' || r == '?' ||
		r == '@' || r == '[' || r == '\\' || r == ']' || r == '^' || r == '|'
}

// isForbiddenDomainCP: forbidden host code points, C0 controls, %, U+007F.
func isForbiddenDomainCP(r rune) bool {
	return isForbiddenHostCP(r) || (r >= 0 && r <= 0x1F) || r == '%' || r == 0x7F
}

// asciiLowerRune lower-cases an ASCII upper alpha and leaves everything else.
func asciiLowerRune(r rune) rune {
	if r >= 'A' && r <= 'Z' {
		return r + 0x20
	}
	return r
}

// hexValue is the value of a hex digit (0 for anything else).
func hexValue(r rune) int {
	if r >= '0' && r <= '9' {
		return int(r - '0')
	}
	if r >= 'a' && r <= 'f' {
		return int(r-'a') + 10
	}
	if r >= 'A' && r <= 'F' {
		return int(r-'A') + 10
	}
	return 0
}

// hexUpperDigit is the upper-case hex digit for a value 0..15.
func hexUpperDigit(n byte) byte {
	if n < 10 {
		return '0' + n
	}
	return 'A' + (n - 10)
}

// hexLowerDigit is the lower-case hex digit for a value 0..15.
func hexLowerDigit(n byte) byte {
	if n < 10 {
		return '0' + n
	}
	return 'a' + (n - 10)
}

// ---- percent-encode sets -------------------------------------------------------

// InC0Set: C0 controls and all code points greater than U+007E.
func InC0Set(r rune) bool {
	return (r >= 0 && r <= 0x1F) || r > 0x7E
}

// InFragmentSet: C0 set and space, ", <, >, `.
func InFragmentSet(r rune) bool {
	return InC0Set(r) || r == 0x20 || r == '"' || r == '<' || r == '>' || r == '`'
}

// InQuerySet: C0 set and space, ", #, <, >.
func InQuerySet(r rune) bool {
	return InC0Set(r) || r == 0x20 || r == '"' || r == '#' || r == '<' || r == '>'
}

// InSpecialQuerySet: query set and '.
func InSpecialQuerySet(r rune) bool {
	return InQuerySet(r) || r == '\''
}

// InPathSet: query set and ?, `, {, }.
func InPathSet(r rune) bool {
	return InQuerySet(r) || r == '?' || r == '`' || r == '{' || r == '}'
}

// InUserinfoSet: path set and /, :, ;, =, @, [, \, ], ^, |.
func InUserinfoSet(r rune) bool {
	return InPathSet(r) || r == '/' || r == ':' || r == ';' || r == '=' || r == '@' ||
		r == '[' || r == '\\' || r == ']' || r == '^' || r == '|'
}

// inComponentSet: userinfo set and $ - &, +, ,.
func inComponentSet(r rune) bool {
	return InUserinfoSet(r) || (r >= '$' && r <= '&') || r == '+' || r == ','
}

// inFormSet: component set and !, ' - ), ~.
func inFormSet(r rune) bool {
	return inComponentSet(r) || r == '!' || (r >= '\'' && r <= ')') || r == '~'
}

// InSet reports membership of r in the percent-encode set with the given id.
func InSet(set int, r rune) bool {
	if set == SetC0 {
		return InC0Set(r)
	}
	if set == SetFragment {
		return InFragmentSet(r)
	}
	if set == SetQuery {
		return InQuerySet(r)
	}
	if set == SetSpecialQuery {
		return InSpecialQuerySet(r)
	}
	if set == SetPath {
		return InPathSet(r)
	}
	if set == SetUserinfo {
		return InUserinfoSet(r)
	}
	if set == SetComponent {
		return inComponentSet(r)
	}
	if set == SetForm {
		return inFormSet(r)
	}
	return false
}

// ---- codec -------------------------------------------------------------------------

// percentEncodeByte is "%" followed by two upper-case hex digits.
func percentEncodeByte(b byte) string {
	out := make([]byte, 3)
	out[0] = '%'
	out[1] = hexUpperDigit(b >> 4)
	out[2] = hexUpperDigit(b & 0x0F)
	return string(out)
}

// utf8Bytes is the UTF-8 encoding of a scalar value. Surrogates and values
// outside the Unicode range (which []rune(string) never produces) are encoded
// as U+FFFD, like Go's string(rune) does.
func utf8Bytes(r rune) []byte {
	if r < 0 || r > 0x10FFFF || (r >= 0xD800 && r <= 0xDFFF) {
		r = 0xFFFD
	}
	if r < 0x80 {
		out := make([]byte, 1)
		out[0] = byte(r)
		return out
	}
	if r < 0x800 {
		out := make([]byte, 2)
		out[0] = byte(0xC0 | (r >> 6))
		out[1] = byte(0x80 | (r & 0x3F))
		return out
	}
	if r < 0x10000 {
		out := make([]byte, 3)
		out[0] = byte(0xE0 | (r >> 12))
		out[1] = byte(0x80 | ((r >> 6) & 0x3F))
		out[2] = byte(0x80 | (r & 0x3F))
		return out
	}
	out := make([]byte, 4)
	out[0] = byte(0xF0 | (r >> 18))
	out[1] = byte(0x80 | ((r >> 12) & 0x3F))
	out[2] = byte(0x80 | ((r >> 6) & 0x3F))
	out[3] = byte(0x80 | (r & 0x3F))
	return out
}

// percentEncodeRune is %HH for each byte of the UTF-8 encoding of r.
func percentEncodeRune(r rune) string {
	b := utf8Bytes(r)
	out := ""
	for i := 0; i < len(b); i++ {
		out = out + percentEncodeByte(b[i])
	}
	return out
}

// UTF8PercentEncodeRune: the code point itself (as UTF-8) if it is not in the
// set, otherwise %HH for each byte of its UTF-8 encoding.
func UTF8PercentEncodeRune(r rune, set int) string {
	if !InSet(set, r) {
		return string(utf8Bytes(r))
	}
	return percentEncodeRune(r)
}

// utf8PercentEncodeRunes applies UTF8PercentEncodeRune to every code point.
func utf8PercentEncodeRunes(rs []rune, set int) string {
	out := ""
	for i := 0; i < len(rs); i++ {
		out = out + UTF8PercentEncodeRune(rs[i], set)
	}
	return out
}

// UTF8PercentEncodeString applies UTF8PercentEncodeRune to every code point of
// s (decoded by the input convention).
func UTF8PercentEncodeString(s string, set int) string {
	return utf8PercentEncodeRunes([]rune(s), set)
}

// PercentDecode: "%" followed by two hex digits becomes that byte, every other
// byte stays. The result may be invalid UTF-8.
func PercentDecode(s string) string {
	out := make([]byte, 0, len(s))
	i := 0
	for i < len(s) {
		b := s[i]
		if b == '%' && i+2 < len(s) && isHexDigit(rune(s[i+1])) && isHexDigit(rune(s[i+2])) {
			v := hexValue(rune(s[i+1]))*16 + hexValue(rune(s[i+2]))
			out = append(out, byte(v))
			i = i + 3
		} else {
			out = append(out, b)
			i = i + 1
		}
	}
	return string(out)
}

// ---- small string helpers -------------------------------------------------------

// itoa is the shortest decimal representation of a non-negative integer.
func itoa(n int) string {
	if n <= 0 {
		return "0"
	}
	digits := make([]byte, 0, 20)
	for n > 0 {
		digits = append(digits, byte('0'+n%10))
		n = n / 10
	}
	out := make([]byte, len(digits))
	for i := 0; i < len(digits); i++ {
		out[i] = digits[len(digits)-1-i]
	}
	return string(out)
}

// splitOnByte strictly splits s on sep (always at least one part).
func splitOnByte(s string, sep byte) []string {
	parts := make([]string, 0, 4)
	start := 0
	for i := 0; i < len(s); i++ {
		if s[i] == sep {
			parts = append(parts, s[start:i])
			start = i + 1
		}
	}
	parts = append(parts, s[start:])
	return parts
}
