package whatwgmodel

import (
	"encoding/json"
	"fmt"
	"go/ast"
	goparser "go/parser"
	"go/token"
	"os"
	"sort"
	"strings"
	"testing"
)

const testdataDir = "/repo/testdata/"

func loadJSON(t *testing.T, name string, into interface{}) {
	t.Helper()
	b, err := os.ReadFile(testdataDir + name)
	if err != nil {
		t.Fatalf("read %s: %v", name, err)
	}
	if err := json.Unmarshal(b, into); err != nil {
		t.Fatalf("unmarshal %s: %v", name, err)
	}
}

// getter returns the value of the named API attribute of u.
func getter(u *URL, field string) (string, bool) {
	switch field {
	case "href":
		return u.Href(false), true
	case "protocol":
		return u.Protocol(), true
	case "username":
		return u.GetUsername(), true
	case "password":
		return u.GetPassword(), true
	case "host":
		return u.GetHost(), true
	case "hostname":
		return u.Hostname(), true
	case "port":
		return u.GetPort(), true
	case "pathname":
		return u.Pathname(), true
	case "search":
		return u.Search(), true
	case "hash":
		return u.Hash(), true
	}
	return "", false
}

var comparedFields = []string{"href", "protocol", "username", "password", "host", "hostname", "port", "pathname", "search", "hash"}

// needsIDNA reports whether a string contains something that may route the
// host through vnd.DomainToASCII (non-ASCII, a percent sign that may decode to
// non-ASCII, or an ACE prefix). Only used to label mismatches in the report.
func needsIDNA(s string) bool {
	for i := 0; i < len(s); i++ {
		if s[i] >= 0x80 {
			return true
		}
	}
	l := strings.ToLower(s)
	return strings.Contains(l, "xn--") || strings.Contains(l, "%")
}

func TestWPTURLTestData(t *testing.T) {
	var raw []json.RawMessage
	loadJSON(t, "urltestdata.json", &raw)

	total, matched, failureVectors, idnaRouted := 0, 0, 0, 0
	var mismatches []string
	for idx, r := range raw {
		var asString string
		if json.Unmarshal(r, &asString) == nil {
			continue // comment
		}
		var v map[string]interface{}
		if err := json.Unmarshal(r, &v); err != nil {
			t.Fatalf("entry %d: %v", idx, err)
		}
		input, _ := v["input"].(string)
		total++
		if needsIDNA(input) {
			idnaRouted++
		}
		wantFailure, _ := v["failure"].(bool)
		if wantFailure {
			failureVectors++
		}

		var base *URL
		baseOK := true
		baseDesc := "null"
		if bs, isStr := v["base"].(string); isStr {
			baseDesc = fmt.Sprintf("%q", bs)
			base, baseOK = Parse(bs, nil)
		}
		var u *URL
		ok := false
		if baseOK {
			u, ok = Parse(input, base)
		}

		var diffs []string
		if wantFailure {
			if ok {
				diffs = append(diffs, fmt.Sprintf("expected failure, got href %q", u.Href(false)))
			}
		} else if !ok {
			diffs = append(diffs, fmt.Sprintf("unexpected failure (base parsed: %v)", baseOK))
		} else {
			for _, f := range comparedFields {
				want, present := v[f].(string)
				if !present {
					continue
				}
				got, _ := getter(u, f)
				if got != want {
					diffs = append(diffs, fmt.Sprintf("%s: got %q want %q", f, got, want))
				}
			}
			// Extra internal consistency: reparsing the serialization is a fixpoint.
			re, reOK := Parse(u.Href(false), nil)
			if !reOK {
				diffs = append(diffs, "href does not reparse")
			} else if re.Href(false) != u.Href(false) {
				diffs = append(diffs, fmt.Sprintf("href not a fixpoint: %q -> %q", u.Href(false), re.Href(false)))
			}
		}
		if len(diffs) == 0 {
			matched++
		} else {
			mismatches = append(mismatches, fmt.Sprintf("#%d input=%q base=%s idna-ish=%v: %s", idx, input, baseDesc, needsIDNA(input), strings.Join(diffs, "; ")))
		}
	}
	t.Logf("urltestdata.json: %d vectors (%d expecting failure, %d with non-ASCII/%%/xn-- input), %d matched, %d mismatched",
		total, failureVectors, idnaRouted, matched, len(mismatches))
	for _, m := range mismatches {
		t.Errorf("MISMATCH %s", m)
	}
}

func applySetter(u *URL, setter, value string) bool {
	switch setter {
	case "protocol":
		u.SetProtocol(value)
	case "username":
		u.SetUsername(value)
	case "password":
		u.SetPassword(value)
	case "host":
		u.SetHost(value)
	case "hostname":
		u.SetHostname(value)
	case "port":
		u.SetPort(value)
	case "pathname":
		u.SetPathname(value)
	case "search":
		u.SetSearch(value)
	case "hash":
		u.SetHash(value)
	default:
		return false
	}
	return true
}

type setterCase struct {
	Comment  string            `json:"comment"`
	Href     string            `json:"href"`
	NewValue string            `json:"new_value"`
	Expected map[string]string `json:"expected"`
}

func TestWPTSetters(t *testing.T) {
	var raw map[string]json.RawMessage
	loadJSON(t, "setters_tests.json", &raw)
	setters := []string{"protocol", "username", "password", "host", "hostname", "port", "pathname", "search", "hash"}

	total, matched := 0, 0
	var mismatches []string
	var perSetter []string
	for _, s := range setters {
		var cases []setterCase
		if err := json.Unmarshal(raw[s], &cases); err != nil {
			t.Fatalf("setter %s: %v", s, err)
		}
		okCount := 0
		for i, c := range cases {
			total++
			u, ok := Parse(c.Href, nil)
			if !ok {
				mismatches = append(mismatches, fmt.Sprintf("%s[%d] href %q does not parse", s, i, c.Href))
				continue
			}
			applySetter(u, s, c.NewValue)
			var diffs []string
			keys := make([]string, 0, len(c.Expected))
			for k := range c.Expected {
				keys = append(keys, k)
			}
			sort.Strings(keys)
			for _, k := range keys {
				got, known := getter(u, k)
				if !known {
					diffs = append(diffs, "unknown expected field "+k)
					continue
				}
				if got != c.Expected[k] {
					diffs = append(diffs, fmt.Sprintf("%s: got %q want %q", k, got, c.Expected[k]))
				}
			}
			if len(diffs) == 0 {
				matched++
				okCount++
			} else {
				mismatches = append(mismatches, fmt.Sprintf("%s[%d] href=%q new_value=%q (%s): %s", s, i, c.Href, c.NewValue, c.Comment, strings.Join(diffs, "; ")))
			}
		}
		perSetter = append(perSetter, fmt.Sprintf("%s %d/%d", s, okCount, len(cases)))
	}
	// The single "href" setter case is a plain parse of new_value.
	var hrefCases []setterCase
	if err := json.Unmarshal(raw["href"], &hrefCases); err == nil {
		okCount := 0
		for i, c := range hrefCases {
			total++
			u, ok := Parse(c.NewValue, nil)
			good := ok
			if ok {
				for k, want := range c.Expected {
					got, _ := getter(u, k)
					if got != want {
						good = false
					}
				}
			}
			if good {
				matched++
				okCount++
			} else {
				mismatches = append(mismatches, fmt.Sprintf("href[%d] new_value=%q", i, c.NewValue))
			}
		}
		perSetter = append(perSetter, fmt.Sprintf("href %d/%d", okCount, len(hrefCases)))
	}
	t.Logf("setters_tests.json: %d cases, %d matched, %d mismatched (%s)", total, matched, len(mismatches), strings.Join(perSetter, ", "))
	for _, m := range mismatches {
		t.Errorf("MISMATCH %s", m)
	}
}

// TestWPTToASCII runs toascii.json through the host parser the way the WPT
// harness does (https://<input>/x). It exercises the vnd.DomainToASCII route and
// documents where golang.org/x/net/idna differs from the expected UTS-46 result.
func TestWPTToASCII(t *testing.T) {
	var raw []json.RawMessage
	loadJSON(t, "toascii.json", &raw)
	total, matched := 0, 0
	for idx, r := range raw {
		var asString string
		if json.Unmarshal(r, &asString) == nil {
			continue
		}
		var v struct {
			Input  string  `json:"input"`
			Output *string `json:"output"`
		}
		if err := json.Unmarshal(r, &v); err != nil {
			t.Fatalf("entry %d: %v", idx, err)
		}
		total++
		u, ok := Parse("https://"+v.Input+"/x", nil)
		if v.Output == nil {
			if !ok {
				matched++
			} else {
				t.Errorf("MISMATCH toascii #%d input=%q: expected failure, got host %q", idx, v.Input, u.GetHost())
			}
			continue
		}
		if ok && u.GetHost() == *v.Output && u.Pathname() == "/x" {
			matched++
		} else if !ok {
			t.Errorf("MISMATCH toascii #%d input=%q: unexpected failure, want %q", idx, v.Input, *v.Output)
		} else {
			t.Errorf("MISMATCH toascii #%d input=%q: got host %q want %q", idx, v.Input, u.GetHost(), *v.Output)
		}
	}
	t.Logf("toascii.json: %d vectors, %d matched", total, matched)
}

// encodeHostEndingCodePoints mirrors the helper of WPT's IdnaTestV2.window.js:
// the code points that would end the host in a URL are percent-encoded.
func encodeHostEndingCodePoints(input string) string {
	r := strings.NewReplacer(":", "%3A", "/", "%2F", "?", "%3F", "#", "%23", "\\", "%5C")
	return r.Replace(input)
}

// TestWPTIdnaTestV2Informational runs IdnaTestV2.json the way the WPT harness
// does (https://<input>/x). It measures vnd.DomainToASCII (golang.org/x/net/idna
// and its Unicode version) much more than the model. A deviation on a vector
// that took the model's own ASCII fast path is flagged separately.
func TestWPTIdnaTestV2Informational(t *testing.T) {
	var raw []json.RawMessage
	loadJSON(t, "IdnaTestV2.json", &raw)
	total, matched, asciiPathTotal := 0, 0, 0
	var deviations []string
	for idx, r := range raw {
		var asString string
		if json.Unmarshal(r, &asString) == nil {
			continue
		}
		var v struct {
			Input  string  `json:"input"`
			Output *string `json:"output"`
		}
		if err := json.Unmarshal(r, &v); err != nil {
			t.Fatalf("entry %d: %v", idx, err)
		}
		if v.Input == "" {
			continue // cannot be tested through a URL
		}
		total++
		// Does the model handle this host without vnd.DomainToASCII?
		// (Reconstructs the host buffer the parser would see.)
		fast := false
		dom := []rune(PercentDecode(v.Input))
		if allASCII(dom) && !hasACELabel(dom) {
			fast = true
			asciiPathTotal++
		}
		u, ok := Parse("https://"+encodeHostEndingCodePoints(v.Input)+"/x", nil)
		good := false
		desc := ""
		if v.Output == nil {
			good = !ok
			if ok {
				desc = fmt.Sprintf("expected failure, got host %q", u.GetHost())
			}
		} else if !ok {
			desc = fmt.Sprintf("unexpected failure, want %q", *v.Output)
		} else if u.GetHost() != *v.Output {
			desc = fmt.Sprintf("got host %q want %q", u.GetHost(), *v.Output)
		} else {
			good = true
		}
		if good {
			matched++
			continue
		}
		deviations = append(deviations, fmt.Sprintf("#%d input=%q: %s", idx, v.Input, desc))
		if fast {
			t.Errorf("model ASCII fast path deviates on #%d input=%q: %s", idx, v.Input, desc)
		}
	}
	t.Logf("IdnaTestV2.json (informational, measures x/net/idna): %d vectors, %d matched, %d deviate; %d vectors took the model's ASCII fast path",
		total, matched, len(deviations), asciiPathTotal)
	// Deviations here are Unicode-version differences of golang.org/x/net/idna,
	// not model defects; they are reported as errors so that they cannot go
	// unnoticed (none with x/net v0.34.0).
	for _, d := range deviations {
		t.Errorf("IDNA deviation %s", d)
	}
}

// ---- round trips and direct unit checks -----------------------------------------------

func TestIPv6RoundTrip(t *testing.T) {
	cases := []struct {
		in   string
		ok   bool
		want string
	}{
		{"::", true, "::"},
		{"::1", true, "::1"},
		{"1::", true, "1::"},
		{"1:2:3:4:5:6:7:8", true, "1:2:3:4:5:6:7:8"},
		{"1:0:0:2:0:0:0:3", true, "1:0:0:2::3"},
		{"1:0:0:2:0:0:3:4", true, "1::2:0:0:3:4"}, // first longest run
		{"0:0:1:0:0:1:0:0", true, "::1:0:0:1:0:0"},
		{"1:0:2:0:3:0:4:0", true, "1:0:2:0:3:0:4:0"}, // single zeros are not compressed
		{"::ffff:192.168.0.1", true, "::ffff:c0a8:1"},
		{"::127.0.0.1", true, "::7f00:1"},
		{"0:0:0:0:0:0:13.1.68.3", true, "::d01:4403"},
		{"ABCD:EF01:2345:6789:abcd:ef01:2345:6789", true, "abcd:ef01:2345:6789:abcd:ef01:2345:6789"},
		{"0001:0:0:0:0:0:0:0", true, "1::"},
		{"", false, ""},
		{":", false, ""},
		{":1", false, ""},
		{"1:", false, ""},
		{"1::2::3", false, ""},
		{"1:2:3:4:5:6:7", false, ""},
		{"1:2:3:4:5:6:7:8:9", false, ""},
		{"1:2:3:4:5:6:7::", true, "1:2:3:4:5:6:7:0"}, // "::" standing for one piece is accepted by the algorithm
		{"::2:3:4:5:6:7:8", true, "0:2:3:4:5:6:7:8"},
		{"1:2:3:4:5:6:7:8::", false, ""},
		{"::1:2:3:4:5:6:7:8", false, ""},
		{"12345::", false, ""},
		{"g::", false, ""},
		{"::1.2.3", false, ""},
		{"::1.2.3.4.5", false, ""},
		{"::01.2.3.4", false, ""},
		{"::256.2.3.4", false, ""},
		{"::.1.2.3", false, ""},
		{"1:2:3:4:5:6:7:1.2.3.4", false, ""},
		{"::1.2.3.4:5", false, ""},
		{"1:2:3:4:5:6:1.2.3.4", true, "1:2:3:4:5:6:102:304"},
	}
	for _, c := range cases {
		addr, ok := ParseIPv6([]rune(c.in))
		if ok != c.ok {
			t.Errorf("ParseIPv6(%q) ok=%v want %v", c.in, ok, c.ok)
			continue
		}
		if !ok {
			continue
		}
		s := SerializeIPv6(addr)
		if s != c.want {
			t.Errorf("SerializeIPv6(ParseIPv6(%q)) = %q want %q", c.in, s, c.want)
		}
		back, ok2 := ParseIPv6([]rune(s))
		if !ok2 || back != addr {
			t.Errorf("round trip of %q via %q: %v %v", c.in, s, back, ok2)
		}
		h, okh := ParseHost("["+c.in+"]", true)
		if !okh || h != "["+c.want+"]" {
			t.Errorf("ParseHost([%s]) = %q %v", c.in, h, okh)
		}
	}
	// Exhaustive zero/non-zero patterns: parse(serialize(a)) == a, and the
	// serialization is what an independent description of the compression gives.
	for mask := 0; mask < 256; mask++ {
		var a [8]uint16
		for i := 0; i < 8; i++ {
			if mask&(1<<uint(i)) != 0 {
				a[i] = uint16(0x1 + i*0x1111)
			}
		}
		s := SerializeIPv6(a)
		back, ok := ParseIPv6([]rune(s))
		if !ok || back != a {
			t.Errorf("mask %08b: %v -> %q -> %v %v", mask, a, s, back, ok)
		}
		if strings.Count(s, "::") > 1 || strings.Contains(s, ":::") {
			t.Errorf("mask %08b: bad serialization %q", mask, s)
		}
	}
}

func TestIPv4(t *testing.T) {
	values := []uint32{0, 1, 255, 256, 65535, 65536, 0x7F000001, 0xC0A80001, 0xFFFFFFFF, 0x01020304}
	for _, v := range values {
		s := SerializeIPv4(v)
		if !EndsInANumber(s) {
			t.Errorf("EndsInANumber(%q) = false", s)
		}
		back, ok := ParseIPv4(s)
		if !ok || back != v {
			t.Errorf("ParseIPv4(SerializeIPv4(%d)=%q) = %d %v", v, s, back, ok)
		}
	}
	cases := []struct {
		in   string
		ends bool
		ok   bool
		want string
	}{
		{"1.2.3.4", true, true, "1.2.3.4"},
		{"1.2.3.4.", true, true, "1.2.3.4"},
		{"1.2.3.4..", false, false, ""},
		{"1.2.3", true, true, "1.2.0.3"},
		{"1.2", true, true, "1.0.0.2"},
		{"1", true, true, "0.0.0.1"},
		{"0x7f.1", true, true, "127.0.0.1"},
		{"0x", true, true, "0.0.0.0"},
		{"0X10", true, true, "0.0.0.16"},
		{"017", true, true, "0.0.0.15"},
		{"08", true, false, ""}, // all digits => ends in a number, but not octal
		{"09.1", true, false, ""},
		{"4294967295", true, true, "255.255.255.255"},
		{"4294967296", true, false, ""},
		{"0xffffffff", true, true, "255.255.255.255"},
		{"0x100000000", true, false, ""},
		{"18446744073709551616", true, false, ""},   // 2^64: must not wrap to 0
		{"18446744073709551617", true, false, ""},   // 2^64+1: must not wrap to 1
		{"0x10000000000000001", true, false, ""},    // 2^64+1 in hex
		{"1.18446744073709551617", true, false, ""}, // wrap would give 1.0.0.1
		{"1.2.3.4.5", true, false, ""},
		{"256.1.1.1", true, false, ""},
		{"1.1.1.256", true, false, ""},
		{"1.1.65536", true, false, ""},
		{"1.1.65535", true, true, "1.1.255.255"},
		{"1.16777215", true, true, "1.255.255.255"},
		{"1.16777216", true, false, ""},
		{"-1", false, false, ""},
		{"+1", false, false, ""},
		{"1_0", false, false, ""},
		{"a.1", true, false, ""},
		{"1.a", false, false, ""},
		{"1..2", true, false, ""},
		{".", false, false, ""},
		{"", false, false, ""},
		{"0xg", false, false, ""},
		{"a.0x", true, false, ""},
		{"foo.0x1f", true, false, ""},
	}
	for _, c := range cases {
		if got := EndsInANumber(c.in); got != c.ends {
			t.Errorf("EndsInANumber(%q) = %v want %v", c.in, got, c.ends)
		}
		if !c.ends {
			continue
		}
		a, ok := ParseIPv4(c.in)
		if ok != c.ok {
			t.Errorf("ParseIPv4(%q) ok=%v want %v", c.in, ok, c.ok)
			continue
		}
		if ok && SerializeIPv4(a) != c.want {
			t.Errorf("ParseIPv4(%q) = %q want %q", c.in, SerializeIPv4(a), c.want)
		}
	}
}

func pairsEqual(a, b []Pair) bool {
	if len(a) != len(b) {
		return false
	}
	for i := range a {
		if a[i] != b[i] {
			return false
		}
	}
	return true
}

func TestFormRoundTrip(t *testing.T) {
	lists := [][]Pair{
		{},
		{{"a", "b"}},
		{{"a", ""}, {"", "b"}, {"", ""}},
		{{"a&b", "c=d"}, {"e+f", "g%h"}, {"i j", " k "}},
		{{"=", "&"}, {"+", "%"}, {"%20", "%2B"}, {"+%+", "&=&"}},
		{{"é", "日本語"}, {"\U0001F600", "x y"}, {"�", "~!*'()-._"}},
		{{"a", "1"}, {"a", "2"}, {"b", "3"}, {"a", "1"}},
		{{"\x00\x01\x7f", "\t\n\r"}, {"/?#[]@", ":;,$"}},
	}
	for _, l := range lists {
		s := FormSerialize(l)
		back := FormParse(s)
		if !pairsEqual(back, l) {
			t.Errorf("FormParse(FormSerialize(%q)=%q) = %q", l, s, back)
		}
		for i := 0; i < len(s); i++ {
			b := s[i]
			okByte := b == '&' || b == '=' || b == '+' || b == '%' || b == '*' || b == '-' || b == '.' || b == '_' ||
				(b >= '0' && b <= '9') || (b >= 'a' && b <= 'z') || (b >= 'A' && b <= 'Z')
			if !okByte {
				t.Errorf("FormSerialize(%q) contains byte %q", l, b)
			}
		}
	}
	if got := FormSerialize([]Pair{{"a b", "é&"}, {"*-._", "~"}}); got != "a+b=%C3%A9%26&*-._=%7E" {
		t.Errorf("FormSerialize = %q", got)
	}
	parseCases := []struct {
		in   string
		want []Pair
	}{
		{"", []Pair{}},
		{"&&", []Pair{}},
		{"a", []Pair{{"a", ""}}},
		{"a=", []Pair{{"a", ""}}},
		{"=a", []Pair{{"", "a"}}},
		{"=", []Pair{{"", ""}}},
		{"a=b=c", []Pair{{"a", "b=c"}}},
		{"a+b=c%20d&%zz=%4", []Pair{{"a b", "c d"}, {"%zz", "%4"}}},
		{"%2B=+", []Pair{{"+", " "}}},
		{"%ff=%C3", []Pair{{"�", "�"}}},
		{"a=1&&b=2&", []Pair{{"a", "1"}, {"b", "2"}}},
	}
	for _, c := range parseCases {
		if got := FormParse(c.in); !pairsEqual(got, c.want) {
			t.Errorf("FormParse(%q) = %q want %q", c.in, got, c.want)
		}
	}
}

func TestListOps(t *testing.T) {
	l := []Pair{{"b", "1"}, {"a", "2"}, {"b", "3"}, {"c", "4"}, {"a", "5"}}
	if v, ok := ListGet(l, "b"); !ok || v != "1" {
		t.Errorf("ListGet b = %q %v", v, ok)
	}
	if _, ok := ListGet(l, "z"); ok {
		t.Errorf("ListGet z found")
	}
	if got := ListGetAll(l, "a"); len(got) != 2 || got[0] != "2" || got[1] != "5" {
		t.Errorf("ListGetAll a = %q", got)
	}
	if !ListHas(l, "c") || ListHas(l, "z") {
		t.Errorf("ListHas")
	}
	if got := ListDelete(l, "b"); !pairsEqual(got, []Pair{{"a", "2"}, {"c", "4"}, {"a", "5"}}) {
		t.Errorf("ListDelete = %q", got)
	}
	if got := ListSet(l, "b", "x"); !pairsEqual(got, []Pair{{"b", "x"}, {"a", "2"}, {"c", "4"}, {"a", "5"}}) {
		t.Errorf("ListSet = %q", got)
	}
	if got := ListSet(l, "z", "x"); !pairsEqual(got, append(append([]Pair{}, l...), Pair{"z", "x"})) {
		t.Errorf("ListSet new = %q", got)
	}
	if got := ListAppend(l, "a", "6"); len(got) != 6 || got[5] != (Pair{"a", "6"}) {
		t.Errorf("ListAppend = %q", got)
	}
	if got := ListSortStable(l); !pairsEqual(got, []Pair{{"a", "2"}, {"a", "5"}, {"b", "1"}, {"b", "3"}, {"c", "4"}}) {
		t.Errorf("ListSortStable = %q", got)
	}
	if got := ListSortStable([]Pair{{"ab", "1"}, {"a", "2"}, {"", "3"}, {"aB", "4"}, {"é", "5"}, {"z", "6"}}); !pairsEqual(got, []Pair{{"", "3"}, {"a", "2"}, {"aB", "4"}, {"ab", "1"}, {"z", "6"}, {"é", "5"}}) {
		t.Errorf("ListSortStable bytes = %q", got)
	}
	// The input list is not modified.
	if l[0] != (Pair{"b", "1"}) || len(l) != 5 {
		t.Errorf("input list modified: %q", l)
	}
}

// TestSetsAgainstStandardTables checks the range predicates against the code
// point lists of the standard written out literally (an independent rendering
// of Appendix A.1), for every code point up to U+0100 plus a few above.
func TestSetsAgainstStandardTables(t *testing.T) {
	fragment := " \"<>`"
	query := " \"#<>"
	specialQuery := query + "'"
	path := query + "?`{}"
	userinfo := path + "/:;=@[\\]^|"
	component := userinfo + "$%&+,"
	form := component + "!'()~"
	tables := []struct {
		set   int
		extra string
	}{
		{SetC0, ""}, {SetFragment, fragment}, {SetQuery, query}, {SetSpecialQuery, specialQuery},
		{SetPath, path}, {SetUserinfo, userinfo}, {SetComponent, component}, {SetForm, form},
	}
	for _, tb := range tables {
		for r := rune(0); r <= 0x100; r++ {
			want := r <= 0x1F || r > 0x7E || strings.ContainsRune(tb.extra, r)
			if got := InSet(tb.set, r); got != want {
				t.Errorf("InSet(%d, %U) = %v want %v", tb.set, r, got, want)
			}
		}
		for _, r := range []rune{0x7FF, 0x800, 0xFFFD, 0xFFFF, 0x10000, 0x10FFFF} {
			if !InSet(tb.set, r) {
				t.Errorf("InSet(%d, %U) = false", tb.set, r)
			}
		}
	}
	for r := rune(0); r <= 0x100; r++ {
		if InC0Set(r) != InSet(SetC0, r) || InFragmentSet(r) != InSet(SetFragment, r) || InQuerySet(r) != InSet(SetQuery, r) ||
			InSpecialQuerySet(r) != InSet(SetSpecialQuery, r) || InPathSet(r) != InSet(SetPath, r) || InUserinfoSet(r) != InSet(SetUserinfo, r) {
			t.Errorf("named predicate differs from InSet at %U", r)
		}
		wantHost := strings.ContainsRune("\x00\t\n\r #/:<>?@[\\]^|", r)
		if isForbiddenHostCP(r) != wantHost {
			t.Errorf("isForbiddenHostCP(%U) = %v", r, !wantHost)
		}
		wantDomain := wantHost || r <= 0x1F || r == '%' || r == 0x7F
		if isForbiddenDomainCP(r) != wantDomain {
			t.Errorf("isForbiddenDomainCP(%U) = %v", r, !wantDomain)
		}
	}
}

func TestCodec(t *testing.T) {
	// utf8Bytes agrees with Go for every scalar value class boundary.
	for _, r := range []rune{0, 0x41, 0x7F, 0x80, 0x7FF, 0x800, 0xD7FF, 0xE000, 0xFFFD, 0xFFFF, 0x10000, 0x10FFFF} {
		if string(utf8Bytes(r)) != string(r) {
			t.Errorf("utf8Bytes(%U) = % x want % x", r, utf8Bytes(r), string(r))
		}
	}
	enc := []struct {
		r    rune
		set  int
		want string
	}{
		{' ', SetC0, " "}, {' ', SetFragment, "%20"}, {'≡', SetUserinfo, "%E2%89%A1"}, {'‽', SetUserinfo, "%E2%80%BD"},
		{'\U0001F4A9', SetPath, "%F0%9F%92%A9"}, {'a', SetForm, "a"}, {'~', SetForm, "%7E"}, {'~', SetComponent, "~"},
		{0x7F, SetC0, "%7F"}, {'\'', SetQuery, "'"}, {'\'', SetSpecialQuery, "%27"}, {'é', SetC0, "%C3%A9"},
	}
	for _, c := range enc {
		if got := UTF8PercentEncodeRune(c.r, c.set); got != c.want {
			t.Errorf("UTF8PercentEncodeRune(%U, %d) = %q want %q", c.r, c.set, got, c.want)
		}
	}
	if got := UTF8PercentEncodeString("a b\xffc", SetQuery); got != "a%20b%EF%BF%BDc" {
		t.Errorf("UTF8PercentEncodeString = %q", got)
	}
	dec := []struct{ in, want string }{
		{"", ""}, {"%", "%"}, {"%4", "%4"}, {"%41", "A"}, {"%4g", "%4g"}, {"%%41", "%A"}, {"%2e%2E", ".."},
		{"%ff%FF", "\xff\xff"}, {"a%20b%", "a b%"}, {"%25%s%1G", "%%s%1G"}, {"‽%25%2E", "\xE2\x80\xBD%."},
	}
	for _, c := range dec {
		if got := PercentDecode(c.in); got != c.want {
			t.Errorf("PercentDecode(%q) = %q want %q", c.in, got, c.want)
		}
	}
}

// TestParserLoopAtEOF pins the loop structure: runs at the EOF position that
// rewind the pointer must be followed by further runs.
func TestParserLoopAtEOF(t *testing.T) {
	base, ok := Parse("http://h/a/b?q#f", nil)
	if !ok {
		t.Fatal("base")
	}
	cases := []struct{ in, want string }{
		{"", "http://h/a/b?q"},
		{"x", "http://h/a/x"},
		{"abc", "http://h/a/abc"}, // scheme state at EOF starts over
		{"#", "http://h/a/b?q#"},
		{"?", "http://h/a/b?"},
		{"http:", "http://h/a/b?q"},
		{"//x", "http://x/"},
		{"//x:", "http://x/"},
		{"//x:8", "http://x:8/"},
	}
	for _, c := range cases {
		u, ok := Parse(c.in, base)
		if !ok || u.Href(false) != c.want {
			got := "failure"
			if ok {
				got = u.Href(false)
			}
			t.Errorf("Parse(%q, base) = %q want %q", c.in, got, c.want)
		}
	}
	if _, ok := Parse("", nil); ok {
		t.Errorf("Parse(\"\", nil) succeeded")
	}
	// Clone is deep.
	c := base.Clone()
	c.SetPathname("/z")
	if base.Href(false) != "http://h/a/b?q#f" || c.Href(false) != "http://h/z?q#f" {
		t.Errorf("Clone not deep: %q %q", base.Href(false), c.Href(false))
	}
}

// ---- subset lint ------------------------------------------------------------------------

// TestModelStaysInsidePlainSubset enforces, on the model's own source files,
// the restrictions that make it executable by the symbolic executor: the only
// import is vnd (and only vnd.DomainToASCII), no maps, interfaces, closures,
// defer/panic/recover, goroutines/channels, goto/labels, type switches, range
// loops, package-level variables, floating point or unlisted integer types.
func TestModelStaysInsidePlainSubset(t *testing.T) {
	dir := os.Getenv("WHATWGMODEL_SRC")
	if dir == "" {
		dir = "/verif/harness/whatwgmodel"
	}
	entries, err := os.ReadDir(dir)
	if err != nil {
		t.Skipf("model sources not found: %v", err)
	}
	forbiddenIdents := map[string]bool{
		"uint": true, "uint8": true, "int8": true, "int16": true, "int32": true, "int64": true, "uintptr": true,
		"float32": true, "float64": true, "complex64": true, "complex128": true, "any": true, "error": true,
		"panic": true, "recover": true, "print": true, "println": true, "min": true, "max": true, "clear": true,
		"delete": true, "close": true, "complex": true, "real": true, "imag": true,
	}
	files := 0
	for _, e := range entries {
		name := e.Name()
		if !strings.HasSuffix(name, ".go") || strings.HasSuffix(name, "_test.go") {
			continue
		}
		files++
		fset := token.NewFileSet()
		f, err := goparser.ParseFile(fset, dir+"/"+name, nil, 0)
		if err != nil {
			t.Fatalf("%s: %v", name, err)
		}
		bad := func(n ast.Node, what string) {
			t.Errorf("%s: %s", fset.Position(n.Pos()), what)
		}
		if f.Name.Name != "whatwgmodel" {
			bad(f.Name, "package name")
		}
		for _, imp := range f.Imports {
			if imp.Path.Value != `"github.com/nlnwa/whatwg-url/internal/vnd"` {
				bad(imp, "forbidden import "+imp.Path.Value)
			}
		}
		for _, d := range f.Decls {
			if g, ok := d.(*ast.GenDecl); ok && g.Tok == token.VAR {
				bad(g, "package-level variable")
			}
		}
		ast.Inspect(f, func(n ast.Node) bool {
			switch x := n.(type) {
			case *ast.MapType:
				bad(x, "map type")
			case *ast.InterfaceType:
				bad(x, "interface type")
			case *ast.FuncLit:
				bad(x, "closure")
			case *ast.FuncType:
				// func types are only allowed as part of declarations.
			case *ast.DeferStmt:
				bad(x, "defer")
			case *ast.GoStmt:
				bad(x, "go statement")
			case *ast.ChanType:
				bad(x, "channel")
			case *ast.SelectStmt:
				bad(x, "select")
			case *ast.SendStmt:
				bad(x, "send")
			case *ast.TypeSwitchStmt:
				bad(x, "type switch")
			case *ast.TypeAssertExpr:
				bad(x, "type assertion")
			case *ast.LabeledStmt:
				bad(x, "label")
			case *ast.RangeStmt:
				bad(x, "range loop")
			case *ast.BranchStmt:
				if x.Tok == token.GOTO || x.Tok == token.FALLTHROUGH || x.Label != nil {
					bad(x, "goto/fallthrough/labeled branch")
				}
			case *ast.BasicLit:
				if x.Kind == token.FLOAT || x.Kind == token.IMAG {
					bad(x, "floating point literal")
				}
			case *ast.SelectorExpr:
				if id, ok := x.X.(*ast.Ident); ok && id.Name == "vnd" && x.Sel.Name != "DomainToASCII" {
					bad(x, "vnd."+x.Sel.Name)
				}
			case *ast.Ident:
				if forbiddenIdents[x.Name] {
					bad(x, "forbidden identifier "+x.Name)
				}
			case *ast.IndexListExpr:
				bad(x, "generics")
			case *ast.Field:
				if ft, ok := x.Type.(*ast.FuncType); ok {
					bad(ft, "func-typed field or parameter")
				}
			}
			return true
		})
	}
	if files < 5 {
		t.Errorf("expected at least 5 model source files in %s, found %d", dir, files)
	}
}
