package whatwgmodel

// Differential test of the model against Node.js' WHATWG URL implementation
// (Ada), an implementation that shares nothing with the model or with the Go
// library under test. It is an extra native validation beyond the WPT vectors;
// it is skipped when no `node` binary is available. Node follows the living
// standard, the model the 24 May 2023 snapshot: deviations that are explained
// by later changes of the standard are classified, everything else is an error.
//
//	WHATWGMODEL_NODE_N=<cases per kind>   (default 40000)
//	WHATWGMODEL_NODE_SEED=<seed>          (default 1)

import (
	"encoding/json"
	"fmt"
	"math/rand"
	"os"
	"os/exec"
	"path/filepath"
	"regexp"
	"strconv"
	"strings"
	"testing"
)

const nodeScript = `
const fs = require('fs');
const cases = JSON.parse(fs.readFileSync(process.argv[2], 'utf8'));
const start = parseInt(process.argv[4], 10);
const fd = fs.openSync(process.argv[3], 'a');
function snap(u) {
  return {href: u.href, protocol: u.protocol, username: u.username, password: u.password,
          host: u.host, hostname: u.hostname, port: u.port, pathname: u.pathname,
          search: u.search, hash: u.hash};
}
for (let i = start; i < cases.length; i++) {
  const c = cases[i];
  let r;
  try {
    let u;
    if (c.kind === 'parse') {
      u = (c.base === null) ? new URL(c.input) : new URL(c.input, c.base);
    } else {
      u = new URL(c.href);
      for (const op of c.ops) { u[op.setter] = op.value; }
    }
    r = snap(u);
  } catch (e) {
    r = {failure: true};
  }
  // One line per case, written synchronously: if node itself aborts on a case
  // (it does on some setter sequences), the driver knows which one it was.
  fs.writeSync(fd, JSON.stringify(r) + '\n');
}
fs.closeSync(fd);
`

type diffOp struct {
	Setter string `json:"setter"`
	Value  string `json:"value"`
}

type diffCase struct {
	Kind  string   `json:"kind"`
	Input string   `json:"input"`
	Base  *string  `json:"base"`
	Href  string   `json:"href,omitempty"`
	Ops   []diffOp `json:"ops,omitempty"`
}

var diffTokens = []string{
	"http:", "https:", "ws:", "wss:", "ftp:", "file:", "a:", "mailto:", "HtTp:", "non-spec+1.a:", "javascript:", "1a:", "a b:",
	"/", "/", "/", "//", "\\", "\\\\", "?", "#", "@", ":", ":", "[", "]", ".", "..", "...", "%2e", "%2E", ".%2e", "%2e%2E", "%", "%4", "%41", "%zz", "%00", "%20", "%2F", "%5c", "%3A", "%C3%A9", "%ff",
	" ", "  ", "\t", "\n", "\r", "\x00", "\x01", "\x1f", "\x7f", "x", "y", "Z", "host", "ExAmPlE.com", "localhost", "LOCALHOST", "C:", "c|", "C|", "d:", "c:/", "C|\\",
	"1", "0", "00", "08", "0x", "0X1f", "0xg", "256", "255", "65535", "65536", "80", "443", "21", "0080", "4294967295", "4294967296", "99999999999999999999999", "0x100000000", "1.2.3.4", "1.2.3", "1.2.3.4.5", "1..2", "127.1", "0x7f.1", "1.2.3.4.", "1.2.3.4..", "a.1", "1.a", "foo.0x", "-1", "+1",
	"[::1]", "[::]", "[1:2:3:4:5:6:7:8]", "[1:0:0:2::3]", "[::ffff:1.2.3.4]", "[::1.2.3]", "[1::2::3]", "[:1]", "[1:]", "[12345::]", "[::1", "::1]", "[::1]x", "[[::1]]", "[::01.2.3.4]", "[0:0:0:0:0:0:0:0]", "[1:2:3:4:5:6:1.2.3.4]", "[::G]", "[::1%25eth0]",
	"|", "^", "{", "}", "`", "'", "\"", "<", ">", "~", "+", "-", "_", "=", "&", ";", "$", ",", "!", "*", "(", ")",
	"é", "‽", "\u00a0", "\u3002", "\U0001F4A9", "\ufeff", "\ufffd", "\u200d", "ß", "xn--", "xn--a", "XN--e1afmkfd", "xn--e1afmkfd", "\u00ad", "İ", "％４１", "。",
	"user", "pass", "user:pass@", "a@b@", ":@", "@@",
}

var diffBases = []string{
	"http://h/a/b?q#f", "https://u:p@h.example:8/x/../y/./z?q=1", "http://h", "ws://h:81/p/", "ftp://h/a/b/c",
	"file:///C:/d/e", "file:///c|/d/e?q", "file://host/p/q", "file:///", "file:///a/b", "file:", "file://localhost/C:/",
	"a:/p/q", "a://h/p/q?q#f", "a://h", "a:/", "a:/.//p", "a:p/q", "mailto:x@y", "about:blank", "a:", "a:opaque ?q#f", "a://u:p@h:5/p",
	"a:///p", "a://h:0/", "non-special://[::1]:9/",
}

var diffHrefs = []string{
	"http://h/a/b?q#f", "https://u:p@h.example:8/x?q=1#f", "http://h", "http://h:81/", "ws://h/", "wss://u@h/", "ftp://h:21/a",
	"file:///C:/d/e", "file://host/p/q", "file:///", "file://localhost/", "file:///C|/x",
	"a:/p/q", "a://h/p/q?q#f", "a://h", "a:/", "a:/.//p", "a:p/q", "mailto:x@y", "about:blank", "a:", "a:opaque  ?q#f", "a:opaque  #f", "a:opaque  ?q", "a:opaque  ",
	"a://u:p@h:5/p", "a:///p", "a://h:0/", "non-special://[::1]:9/", "http://[::1]/", "http://1.2.3.4/", "https://h:443/", "a:/..//p", "a://h/..//p",
	"http://h/%2e%2E/x", "http://xn--e1afmkfd/", "data:text/plain,x y  ", "javascript:alert(1)  ", "a://:5/", "sc://%/", "sc://\u00f1/",
}

var diffSetters = []string{"protocol", "username", "password", "host", "hostname", "port", "pathname", "search", "hash"}

func genString(rnd *rand.Rand, maxTokens int) string {
	n := rnd.Intn(maxTokens + 1)
	var b strings.Builder
	for i := 0; i < n; i++ {
		b.WriteString(diffTokens[rnd.Intn(len(diffTokens))])
	}
	return b.String()
}

// genURLish builds strings that look like URLs more often than genString does.
func genURLish(rnd *rand.Rand) string {
	pick := func(xs ...string) string { return xs[rnd.Intn(len(xs))] }
	var b strings.Builder
	if rnd.Intn(4) != 0 {
		b.WriteString(pick("http:", "https:", "file:", "a:", "ws:", "ftp:", "HTTP:", "File:", "b+c:", ""))
	}
	b.WriteString(pick("", "/", "//", "///", "\\\\", "/\\", "////", "\\/"))
	if rnd.Intn(3) == 0 {
		b.WriteString(genString(rnd, 2))
		b.WriteString(pick("@", ":@", "@", ":"+genString(rnd, 1)+"@"))
	}
	b.WriteString(genString(rnd, 3))
	if rnd.Intn(3) == 0 {
		b.WriteString(":" + pick("", "0", "80", "443", "21", "8080", "65535", "65536", "08", "1x", "-1", " 1", "000000000000000000080"))
	}
	if rnd.Intn(2) == 0 {
		b.WriteString(pick("/", "\\", "/", "/"))
		b.WriteString(genString(rnd, 4))
	}
	if rnd.Intn(3) == 0 {
		b.WriteString("?" + genString(rnd, 3))
	}
	if rnd.Intn(3) == 0 {
		b.WriteString("#" + genString(rnd, 3))
	}
	return b.String()
}

func genSetterValue(rnd *rand.Rand, setter string) string {
	pick := func(xs ...string) string { return xs[rnd.Intn(len(xs))] }
	if rnd.Intn(3) == 0 {
		return genString(rnd, 4)
	}
	switch setter {
	case "protocol":
		return pick("http", "https:", "file", "a", "b:", "ws", "wss", "ftp", "HTTP", "h t", "", "1a", "a+b-c.d", "http://x", "é", "file:", "ht\ttp", ":", "a:b")
	case "port":
		return pick("", "0", "80", "443", "21", "8080", "65535", "65536", "99999999999999999999", "8080x", "x80", " 80", "80 ", "8\t0", "-1", "+1", "80/", "80?", "80\\", "80#", "0080", "٨٠")
	case "host", "hostname":
		return pick("", "h", "H.Example", "h:81", "h:", ":81", "h:81x", "h:x", "[::1]", "[::1]:82", "[::1", "1.2.3.4", "0x7f.1", "1.2.3.4.5", "a b", "a/b", "a\\b", "a?b", "a#b", "a@b", "h:80", "h:443", "localhost", "x:65536", "é", "%41", "%", "xn--", "h\t:8\n1", "h/p", "//h", "h:81/p?q", "h:81:82") + pick("", "", "", genString(rnd, 1))
	case "pathname":
		return pick("", "/", "//", "/a/b", "a", "\\a", "/..", "/./", "/%2e%2e/x", "?", "#", "/a?b#c", "/C:", "C|/x", "/c|/x", " ", "/ ", "//h/p", "/.//p", "\x00", "é") + pick("", "", genString(rnd, 2))
	case "search":
		return pick("", "?", "??", "q", "?q", "a b", "a'b", "a\"b<>", "#", "a#b", "é", "\x00", " ", "?a=1&b=2", "\t\n") + pick("", "", genString(rnd, 2))
	case "hash":
		return pick("", "#", "##", "f", "#f", "a b", "a`b", "a\"b<>", "?", "é", "\x00", " ", "\t\n") + pick("", "", genString(rnd, 2))
	}
	// username, password
	return pick("", "u", "u:p", "u@h", "a b", "é", "%41", "%", "/?#", "[]\\^|", "{}`", "\x00\t", ";=", "'\"", "~!$&*()+,")
}

// classifyDeviation names the reason of a deviation that is explained by a
// difference between the living standard (Node) and the 24 May 2023 snapshot
// or by Unicode/ICU versions; "" means unexplained.
func classifyDeviation(c diffCase, got, want map[string]interface{}) string {
	// Ada (node) splits the fragment off before running the state machine and
	// approximates the no scheme state's test "base has an opaque path and c is
	// not U+0023 (#)" by "the input has no fragment at all": it accepts
	// "x#f" against "about:blank" where the standard (and the WPT vector
	// "input": "x#y"-style failures) require failure.
	if c.Kind == "parse" && c.Base != nil {
		if b, ok := Parse(*c.Base, nil); ok && b.Opaque {
			gf, _ := got["failure"].(bool)
			wf, _ := want["failure"].(bool)
			if gf && !wf && strings.Contains(c.Input, "#") {
				if _, absolute := Parse(c.Input, nil); !absolute {
					return "node bug: relative input with a fragment accepted against an opaque-path base"
				}
			}
		}
	}
	if why := nodeBugTrigger(c, got, want); why != "" {
		return why
	}
	// What is left may only be attributed to IDNA when the deviation is about
	// the host (failure on one side, or different hostnames) and a host went
	// through vnd.DomainToASCII (non-ASCII after percent-decoding, or an ACE
	// label): golang.org/x/net/idna (Unicode 15.0.0 tables) against node's ICU.
	all := c.Input + c.Href
	if c.Base != nil {
		all += *c.Base
	}
	for _, op := range c.Ops {
		all += op.Value
	}
	gf, _ := got["failure"].(bool)
	wf, _ := want["failure"].(bool)
	hostRelated := gf != wf || got["hostname"] != want["hostname"]
	if !hostRelated {
		return ""
	}
	l := strings.ToLower(PercentDecode(all))
	if strings.Contains(l, "xn--") {
		return "vnd/IDNA: ACE label (x/net/idna accepts ACE labels that decode to empty or ASCII-only, ICU rejects or keeps them)"
	}
	for i := 0; i < len(l); i++ {
		if l[i] >= 0x80 {
			return "vnd/IDNA: non-ASCII host (x/net/idna Unicode 15.0.0 vs node ICU)"
		}
	}
	return ""
}

var driveLetterPrefixRE = regexp.MustCompile(`[A-Za-z][:|][^/\\?#]`)

// nodeParseBug recognises the two parser deviations of node on one parse whose
// model result is res.
func nodeParseBug(input string, res map[string]interface{}) string {
	in := strings.TrimFunc(cleanTabNewline(input), func(r rune) bool { return r <= 0x20 })
	if i := strings.IndexAny(in, "?#"); i >= 0 {
		in = in[:i]
	}
	proto, _ := res["protocol"].(string)
	scheme := strings.TrimSuffix(proto, ":")
	// N1: non-special URL whose path ends in a double-dot segment that is not
	// followed by "/": the path state shortens the path and appends the empty
	// string; node does not append it.
	if proto != "" && !isSpecialScheme(scheme) && endsWithDoubleDotSegment(in) {
		return "node bug N1: trailing double-dot segment of a non-special URL does not leave an empty segment"
	}
	// N8: "shorten a path" spares a single segment only if it IS a normalized
	// Windows drive letter (two code points); node also spares segments that
	// merely start with one ("C:0X1f").
	l := strings.ToLower(in)
	if scheme == "file" && (strings.Contains(l, "..") || strings.Contains(l, "%2e")) && driveLetterPrefixRE.MatchString(in) {
		return "node bug N8: shorten-path spares a segment that only starts with a drive letter"
	}
	return ""
}

func cleanTabNewline(s string) string {
	return strings.NewReplacer("\t", "", "\n", "", "\r", "").Replace(s)
}

func endsWithDoubleDotSegment(path string) bool {
	seg := strings.ToLower(path[strings.LastIndex(path, "/")+1:])
	return seg == ".." || seg == ".%2e" || seg == "%2e." || seg == "%2e%2e"
}

// nodeBugTrigger recognises the input classes on which node 20 / Ada 2.9.2 was
// found to deviate from the text of the standard. Each class was adjudicated by
// hand against the standard (see the final report of the model); node is also
// self-inconsistent on most of them (port "x" keeps the port, "x8" clears it).
// The triggers are evaluated on the MODEL's state before each setter call, and
// only consulted when model and node disagree.
func nodeBugTrigger(c diffCase, got, want map[string]interface{}) string {
	if c.Kind == "parse" {
		return nodeParseBug(c.Input, got)
	}
	if first, ok0 := Parse(c.Href, nil); ok0 {
		if why := nodeParseBug(c.Href, modelSnapshot(first)); why != "" {
			return why
		}
	}
	u, ok := Parse(c.Href, nil)
	if !ok {
		return ""
	}
	for _, op := range c.Ops {
		v := cleanTabNewline(op.Value)
		switch op.Setter {
		case "pathname":
			if !u.IsSpecial() && !u.Opaque && endsWithDoubleDotSegment(v) {
				return "node bug N1: trailing double-dot segment of a non-special URL does not leave an empty segment"
			}
		case "port":
			// N2: port state with state override and an empty buffer returns
			// without touching the port; node clears the port for many (not
			// all) values that start with a non-digit.
			if v != "" && (v[0] < '0' || v[0] > '9') {
				return "node bug N2: port setter value starting with a non-digit clears the port"
			}
			// N2c: the setter tests the GIVEN value for emptiness, before tab
			// and newline removal; "\r" reaches the port state with an empty
			// buffer and changes nothing. node clears the port.
			if v == "" && op.Value != "" {
				return "node bug N2c: port setter value made of tab/newline only clears the port"
			}
		case "host", "hostname":
			if !u.Opaque && !u.IsSpecial() && (v == "" || strings.ContainsAny(v[:1], ":/?#")) {
				// N4: host state with an empty buffer. At ":" it is failure;
				// at EOF / ? # with state override it returns if there are
				// credentials or a port, else the host becomes the empty host.
				// node ignores, clears host and port, or accepts ":81".
				return "node bug N4: host/hostname setter with an empty host part on a non-special URL"
			}
			if op.Setter == "host" && !u.Opaque && (!u.HasHost || u.Host == "") && strings.Contains(v, ":") {
				// N3: host then port state run normally; node drops the port
				// when the URL had a null or empty host before.
				return "node bug N3: host setter with a port on a URL with a null/empty host drops the port"
			}
			if op.Setter == "host" && !u.Opaque {
				// N2b: same port parsing bug as N2 through the host setter: the
				// port state returns on the first non-digit with an empty
				// buffer and leaves the port alone; node clears it.
				rest := v
				if strings.HasPrefix(rest, "[") {
					if i := strings.Index(rest, "]"); i >= 0 {
						rest = rest[i+1:]
					}
				}
				if i := strings.Index(rest, ":"); i >= 0 && i+1 < len(rest) {
					r := rest[i+1]
					if (r < '0' || r > '9') && strings.ContainsAny(rest[i+1:], "0123456789") {
						return "node bug N2b: host setter whose port part starts with a non-digit clears the port"
					}
				}
			}
		case "protocol":
			if strings.HasPrefix(strings.ToLower(v), "file") && !u.Opaque && len(u.Path) > 0 && len(u.Path[0]) == 2 && u.Path[0][1] == '|' {
				// N9: setters do not re-parse the URL; node does, which turns a
				// first segment "C|" into "C:" once the scheme is file.
				return "node bug N9: re-parse after the protocol setter normalizes a C| segment"
			}
			if u.HasPort && u.Port == 0 {
				// N7: "if url's port is url's scheme's default port" - a
				// non-special scheme has no (null) default port; node uses 0.
				return "node bug N7: protocol setter clears port 0"
			}
			if u.HasHost && u.Host == "localhost" && strings.HasPrefix(strings.ToLower(v), "file") {
				// N6: the scheme state with state override only sets the scheme.
				return "node bug N6: protocol setter to file rewrites host localhost"
			}
		}
		applySetter(u, op.Setter, op.Value)
		if op.Setter == "pathname" && !u.HasHost && !u.Opaque && len(u.Path) > 1 && u.Path[0] == "" {
			// N5: the pathname setter must not touch query and fragment; node
			// loses them when the serialization needs the "/." prefix.
			return "node bug N5: pathname setter that needs the /. prefix loses query/fragment"
		}
	}
	return ""
}

func modelSnapshot(u *URL) map[string]interface{} {
	m := map[string]interface{}{}
	for _, f := range comparedFields {
		v, _ := getter(u, f)
		m[f] = v
	}
	return m
}

func runModelCase(c diffCase) map[string]interface{} {
	if c.Kind == "parse" {
		var base *URL
		if c.Base != nil {
			b, ok := Parse(*c.Base, nil)
			if !ok {
				return map[string]interface{}{"failure": true}
			}
			base = b
		}
		u, ok := Parse(c.Input, base)
		if !ok {
			return map[string]interface{}{"failure": true}
		}
		return modelSnapshot(u)
	}
	u, ok := Parse(c.Href, nil)
	if !ok {
		return map[string]interface{}{"failure": true}
	}
	for _, op := range c.Ops {
		applySetter(u, op.Setter, op.Value)
	}
	return modelSnapshot(u)
}

func sameSnapshot(a, b map[string]interface{}) bool {
	af, _ := a["failure"].(bool)
	bf, _ := b["failure"].(bool)
	if af || bf {
		return af == bf
	}
	for _, f := range comparedFields {
		if a[f] != b[f] {
			return false
		}
	}
	return true
}

func TestDifferentialAgainstNode(t *testing.T) {
	node, err := exec.LookPath("node")
	if err != nil {
		t.Skip("node not available")
	}
	n := 40000
	if s := os.Getenv("WHATWGMODEL_NODE_N"); s != "" {
		if v, err := strconv.Atoi(s); err == nil {
			n = v
		}
	}
	seed := int64(1)
	if s := os.Getenv("WHATWGMODEL_NODE_SEED"); s != "" {
		if v, err := strconv.ParseInt(s, 10, 64); err == nil {
			seed = v
		}
	}
	maxShow := 40
	if s := os.Getenv("WHATWGMODEL_NODE_MAXSHOW"); s != "" {
		if v, err := strconv.Atoi(s); err == nil {
			maxShow = v
		}
	}
	rnd := rand.New(rand.NewSource(seed))

	var cases []diffCase
	for i := 0; i < n; i++ {
		c := diffCase{Kind: "parse"}
		if rnd.Intn(2) == 0 {
			c.Input = genURLish(rnd)
		} else {
			c.Input = genString(rnd, 6)
		}
		if rnd.Intn(3) != 0 {
			b := diffBases[rnd.Intn(len(diffBases))]
			c.Base = &b
		}
		cases = append(cases, c)
	}
	for i := 0; i < n; i++ {
		c := diffCase{Kind: "set"}
		if rnd.Intn(4) == 0 {
			c.Href = genURLish(rnd)
		} else {
			c.Href = diffHrefs[rnd.Intn(len(diffHrefs))]
		}
		nops := 1 + rnd.Intn(3)
		for j := 0; j < nops; j++ {
			s := diffSetters[rnd.Intn(len(diffSetters))]
			c.Ops = append(c.Ops, diffOp{Setter: s, Value: genSetterValue(rnd, s)})
		}
		cases = append(cases, c)
	}

	dir := t.TempDir()
	casesPath := filepath.Join(dir, "cases.json")
	outPath := filepath.Join(dir, "out.json")
	scriptPath := filepath.Join(dir, "run.js")
	cb, err := json.Marshal(cases)
	if err != nil {
		t.Fatal(err)
	}
	if err := os.WriteFile(casesPath, cb, 0o644); err != nil {
		t.Fatal(err)
	}
	if err := os.WriteFile(scriptPath, []byte(nodeScript), 0o644); err != nil {
		t.Fatal(err)
	}
	var results []map[string]interface{}
	crashed := 0
	for len(results) < len(cases) {
		if err := os.WriteFile(outPath, nil, 0o644); err != nil {
			t.Fatal(err)
		}
		start := len(results)
		out, runErr := exec.Command(node, scriptPath, casesPath, outPath, strconv.Itoa(start)).CombinedOutput()
		ob, err := os.ReadFile(outPath)
		if err != nil {
			t.Fatal(err)
		}
		for _, line := range strings.Split(string(ob), "\n") {
			if line == "" {
				continue
			}
			var r map[string]interface{}
			if err := json.Unmarshal([]byte(line), &r); err != nil {
				t.Fatalf("bad line from node: %q", line)
			}
			results = append(results, r)
		}
		if runErr != nil {
			if len(results) >= len(cases) {
				break
			}
			// node aborted while processing cases[len(results)].
			cj, _ := json.Marshal(cases[len(results)])
			first := strings.SplitN(strings.TrimSpace(string(out)), "\n", 3)
			if len(first) > 2 {
				first = first[:2]
			}
			t.Logf("node itself crashed (%v) on %s: %s", runErr, cj, strings.Join(first, " | "))
			results = append(results, map[string]interface{}{"crashed": true})
			crashed++
			if crashed > 200 {
				t.Fatalf("node crashed too often")
			}
		}
	}
	if len(results) != len(cases) {
		t.Fatalf("node returned %d results for %d cases", len(results), len(cases))
	}

	ver, _ := exec.Command(node, "-p", "process.version + ' ada ' + process.versions.ada + ' icu ' + process.versions.icu + ' unicode ' + process.versions.unicode").Output()
	matched, failures := 0, 0
	explained := map[string]int{}
	unexplained := 0
	for i, c := range cases {
		got := runModelCase(c)
		want := results[i]
		if cr, _ := want["crashed"].(bool); cr {
			continue
		}
		if f, _ := want["failure"].(bool); f {
			failures++
		}
		if sameSnapshot(got, want) {
			matched++
			continue
		}
		if why := classifyDeviation(c, got, want); why != "" {
			explained[why]++
			if explained[why] <= 5 || (maxShow > 1000 && !strings.HasPrefix(why, "node bug")) {
				cj, _ := json.Marshal(c)
				t.Logf("explained deviation (%s): %s\n  model: %v\n  node:  %v", why, cj, got, want)
			}
			continue
		}
		unexplained++
		if unexplained <= maxShow {
			cj, _ := json.Marshal(c)
			t.Errorf("DEVIATION %s\n  model: %v\n  node:  %v", cj, got, want)
		}
	}
	t.Logf("node %s: %d cases (%d parse, %d setter sequences; %d fail in node, %d crash node), %d matched, %d explained deviations %v, %d unexplained",
		strings.TrimSpace(string(ver)), len(cases), n, n, failures, crashed, matched, sumValues(explained), explained, unexplained)
	if unexplained > 0 {
		t.Errorf("%d unexplained deviations from node", unexplained)
	}
}

func sumValues(m map[string]int) int {
	s := 0
	for _, v := range m {
		s += v
	}
	return s
}

var _ = fmt.Sprintf
