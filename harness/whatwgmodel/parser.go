// parser.go: Appendix A.3 - the basic URL parser state machine.
package whatwgmodel

// Parser states. stNone is "no state override".
const (
	stNone = iota
	stSchemeStart
	stScheme
	stNoScheme
	stSpecialRelativeOrAuthority
	stPathOrAuthority
	stRelative
	stRelativeSlash
	stSpecialAuthoritySlashes
	stSpecialAuthorityIgnoreSlashes
	stAuthority
	stHost
	stHostname
	stPort
	stFile
	stFileSlash
	stFileHost
	stPathStart
	stPath
	stOpaquePath
	stQuery
	stFragment
)

// Outcome of one run of the state machine.
const (
	resContinue = iota // go on with the next code point
	resReturn          // terminate the algorithm (the standard's bare "return")
	resFailure         // return failure
)

// parser is the working state of one run of the basic URL parser.
type parser struct {
	input             []rune
	pointer           int
	state             int
	override          int // stNone if no state override is given
	buffer            []rune
	atSignSeen        bool
	insideBrackets    bool
	passwordTokenSeen bool
	url               *URL
	base              *URL
}

// stripC0ControlOrSpace removes leading and trailing C0 control or space.
func stripC0ControlOrSpace(rs []rune) []rune {
	start := 0
	for start < len(rs) && isC0ControlOrSpace(rs[start]) {
		start = start + 1
	}
	end := len(rs)
	for end > start && isC0ControlOrSpace(rs[end-1]) {
		end = end - 1
	}
	return rs[start:end]
}

// removeTabAndNewline removes every ASCII tab or newline.
func removeTabAndNewline(rs []rune) []rune {
	out := make([]rune, 0, len(rs))
	for i := 0; i < len(rs); i++ {
		if !isTabOrNewline(rs[i]) {
			out = append(out, rs[i])
		}
	}
	return out
}

// basicParse is the basic URL parser. url == nil means "url is not given";
// override == stNone means "state override is not given". With a url the record
// is modified in place.
func basicParse(input string, base *URL, url *URL, override int) (*URL, bool) {
	runes := []rune(input)
	if url == nil {
		url = new(URL)
		url.Path = make([]string, 0, 4)
		runes = stripC0ControlOrSpace(runes)
	}
	runes = removeTabAndNewline(runes)

	p := new(parser)
	p.input = runes
	p.pointer = 0
	p.override = override
	p.state = override
	if override == stNone {
		p.state = stSchemeStart
	}
	p.buffer = make([]rune, 0, len(runes)+3)
	p.url = url
	p.base = base

	// One run per pointer position including the EOF position. The EOF test
	// is made on the pointer as it is AFTER the run (a run may rewind it).
	for {
		c := runeAt(p.input, p.pointer)
		res := p.step(c)
		if res == resFailure {
			return nil, false
		}
		if res == resReturn {
			return url, true
		}
		if p.pointer >= len(p.input) {
			break
		}
		p.pointer = p.pointer + 1
	}
	return url, true
}

// step dispatches one run of the state machine on the current state.
func (p *parser) step(c rune) int {
	switch p.state {
	case stSchemeStart:
		return p.schemeStartState(c)
	case stScheme:
		return p.schemeState(c)
	case stNoScheme:
		return p.noSchemeState(c)
	case stSpecialRelativeOrAuthority:
		return p.specialRelativeOrAuthorityState(c)
	case stPathOrAuthority:
		return p.pathOrAuthorityState(c)
	case stRelative:
		return p.relativeState(c)
	case stRelativeSlash:
		return p.relativeSlashState(c)
	case stSpecialAuthoritySlashes:
		return p.specialAuthoritySlashesState(c)
	case stSpecialAuthorityIgnoreSlashes:
		return p.specialAuthorityIgnoreSlashesState(c)
	case stAuthority:
		return p.authorityState(c)
	case stHost:
		return p.hostState(c)
	case stHostname:
		return p.hostState(c)
	case stPort:
		return p.portState(c)
	case stFile:
		return p.fileState(c)
	case stFileSlash:
		return p.fileSlashState(c)
	case stFileHost:
		return p.fileHostState(c)
	case stPathStart:
		return p.pathStartState(c)
	case stPath:
		return p.pathState(c)
	case stOpaquePath:
		return p.opaquePathState(c)
	case stQuery:
		return p.queryState(c)
	case stFragment:
		return p.fragmentState(c)
	}
	return resFailure
}

// ---- helpers on the parser state ----------------------------------------------------

// remainingStartsWith reports whether the code point after c is r.
func (p *parser) remainingStartsWith(r rune) bool {
	return runeAt(p.input, p.pointer+1) == r
}

// hasOverride reports whether a state override is given.
func (p *parser) hasOverride() bool {
	return p.override != stNone
}

// isSpecialBackslash: url is special and c is U+005C (\).
func (p *parser) isSpecialBackslash(c rune) bool {
	return c == '\\' && p.url.IsSpecial()
}

// isAuthorityTerminator: EOF, /, ?, #.
func isAuthorityTerminator(c rune) bool {
	return c == eof || c == '/' || c == '?' || c == '#'
}

// isWindowsDriveLetter: two code points, ASCII alpha then ":" or "|".
func isWindowsDriveLetter(buf []rune) bool {
	return len(buf) == 2 && isASCIIAlpha(buf[0]) && (buf[1] == ':' || buf[1] == '|')
}

// isDriveLetterFollower: /, \, ?, #.
func isDriveLetterFollower(r rune) bool {
	return r == '/' || r == '\\' || r == '?' || r == '#'
}

// startsWithWindowsDriveLetter applies "starts with a Windows drive letter" to
// the code point substring of input from index from to the end.
func startsWithWindowsDriveLetter(input []rune, from int) bool {
	n := len(input) - from
	if n < 2 {
		return false
	}
	if !isASCIIAlpha(input[from]) {
		return false
	}
	if input[from+1] != ':' && input[from+1] != '|' {
		return false
	}
	if n == 2 {
		return true
	}
	return isDriveLetterFollower(input[from+2])
}

// isPercent2eAt: buf[i..i+2] is "%2e" (ASCII case-insensitive).
func isPercent2eAt(buf []rune, i int) bool {
	return buf[i] == '%' && buf[i+1] == '2' && (buf[i+2] == 'e' || buf[i+2] == 'E')
}

// isSingleDotSegment: "." or "%2e".
func isSingleDotSegment(buf []rune) bool {
	if len(buf) == 1 {
		return buf[0] == '.'
	}
	if len(buf) == 3 {
		return isPercent2eAt(buf, 0)
	}
	return false
}

// isDoubleDotSegment: "..", ".%2e", "%2e.", "%2e%2e".
func isDoubleDotSegment(buf []rune) bool {
	if len(buf) == 2 {
		return buf[0] == '.' && buf[1] == '.'
	}
	if len(buf) == 4 {
		return (buf[0] == '.' && isPercent2eAt(buf, 1)) || (isPercent2eAt(buf, 0) && buf[3] == '.')
	}
	if len(buf) == 6 {
		return isPercent2eAt(buf, 0) && isPercent2eAt(buf, 3)
	}
	return false
}

// appendPercentEncoded appends UTF-8 percent-encode(c, set) to buf.
func appendPercentEncoded(buf []rune, c rune, set int) []rune {
	if !InSet(set, c) {
		return append(buf, c)
	}
	enc := percentEncodeRune(c)
	for i := 0; i < len(enc); i++ {
		buf = append(buf, rune(enc[i]))
	}
	return buf
}

// copyHostFrom sets url's host to base's host.
func (u *URL) copyHostFrom(base *URL) {
	u.HasHost = base.HasHost
	u.Host = base.Host
}

// copyPortFrom sets url's port to base's port.
func (u *URL) copyPortFrom(base *URL) {
	u.HasPort = base.HasPort
	u.Port = base.Port
}

// copyPathFrom sets url's path to a clone of base's path.
func (u *URL) copyPathFrom(base *URL) {
	u.Opaque = base.Opaque
	u.OpaquePath = base.OpaquePath
	u.Path = clonePath(base.Path)
}

// copyQueryFrom sets url's query to base's query.
func (u *URL) copyQueryFrom(base *URL) {
	u.HasQuery = base.HasQuery
	u.Query = base.Query
}

// setQueryEmpty sets url's query to the empty string.
func (u *URL) setQueryEmpty() {
	u.HasQuery = true
	u.Query = ""
}

// setQueryNull sets url's query to null.
func (u *URL) setQueryNull() {
	u.HasQuery = false
	u.Query = ""
}

// setFragmentEmpty sets url's fragment to the empty string.
func (u *URL) setFragmentEmpty() {
	u.HasFragment = true
	u.Fragment = ""
}

// ---- the states -----------------------------------------------------------------------

func (p *parser) schemeStartState(c rune) int {
	if isASCIIAlpha(c) {
		p.buffer = append(p.buffer, asciiLowerRune(c))
		p.state = stScheme
		return resContinue
	}
	if !p.hasOverride() {
		p.state = stNoScheme
		p.pointer = p.pointer - 1
		return resContinue
	}
	return resFailure
}

func (p *parser) schemeState(c rune) int {
	if isSchemeCP(c) {
		p.buffer = append(p.buffer, asciiLowerRune(c))
		return resContinue
	}
	if c == ':' {
		buffer := string(p.buffer)
		if p.hasOverride() {
			if p.url.IsSpecial() != isSpecialScheme(buffer) {
				return resReturn
			}
			if (p.url.includesCredentials() || p.url.HasPort) && buffer == "file" {
				return resReturn
			}
			if p.url.Scheme == "file" && p.url.HasHost && p.url.Host == "" {
				return resReturn
			}
		}
		p.url.Scheme = buffer
		if p.hasOverride() {
			if p.url.HasPort && isDefaultPort(p.url.Scheme, p.url.Port) {
				p.url.HasPort = false
				p.url.Port = 0
			}
			return resReturn
		}
		p.buffer = p.buffer[:0]
		if p.url.Scheme == "file" {
			p.state = stFile
		} else if p.url.IsSpecial() && p.base != nil && p.base.Scheme == p.url.Scheme {
			p.state = stSpecialRelativeOrAuthority
		} else if p.url.IsSpecial() {
			p.state = stSpecialAuthoritySlashes
		} else if p.remainingStartsWith('/') {
			p.state = stPathOrAuthority
			p.pointer = p.pointer + 1
		} else {
			p.url.Opaque = true
			p.url.OpaquePath = ""
			p.url.Path = p.url.Path[:0]
			p.state = stOpaquePath
		}
		return resContinue
	}
	if !p.hasOverride() {
		p.buffer = p.buffer[:0]
		p.state = stNoScheme
		// Start over from the first code point: the main loop increments.
		p.pointer = -1
		return resContinue
	}
	return resFailure
}

func (p *parser) noSchemeState(c rune) int {
	if p.base == nil || (p.base.Opaque && c != '#') {
		return resFailure
	}
	if p.base.Opaque && c == '#' {
		p.url.Scheme = p.base.Scheme
		p.url.copyPathFrom(p.base)
		p.url.copyQueryFrom(p.base)
		p.url.setFragmentEmpty()
		p.state = stFragment
		return resContinue
	}
	if p.base.Scheme != "file" {
		p.state = stRelative
		p.pointer = p.pointer - 1
		return resContinue
	}
	p.state = stFile
	p.pointer = p.pointer - 1
	return resContinue
}

func (p *parser) specialRelativeOrAuthorityState(c rune) int {
	if c == '/' && p.remainingStartsWith('/') {
		p.state = stSpecialAuthorityIgnoreSlashes
		p.pointer = p.pointer + 1
		return resContinue
	}
	p.state = stRelative
	p.pointer = p.pointer - 1
	return resContinue
}

func (p *parser) pathOrAuthorityState(c rune) int {
	if c == '/' {
		p.state = stAuthority
		return resContinue
	}
	p.state = stPath
	p.pointer = p.pointer - 1
	return resContinue
}

func (p *parser) relativeState(c rune) int {
	// Special-ness below is that of the scheme just assigned.
	p.url.Scheme = p.base.Scheme
	if c == '/' {
		p.state = stRelativeSlash
		return resContinue
	}
	if p.isSpecialBackslash(c) {
		p.state = stRelativeSlash
		return resContinue
	}
	p.url.Username = p.base.Username
	p.url.Password = p.base.Password
	p.url.copyHostFrom(p.base)
	p.url.copyPortFrom(p.base)
	p.url.copyPathFrom(p.base)
	p.url.copyQueryFrom(p.base)
	if c == '?' {
		p.url.setQueryEmpty()
		p.state = stQuery
	} else if c == '#' {
		p.url.setFragmentEmpty()
		p.state = stFragment
	} else if c != eof {
		p.url.setQueryNull()
		p.url.shortenPath()
		p.state = stPath
		p.pointer = p.pointer - 1
	}
	return resContinue
}

func (p *parser) relativeSlashState(c rune) int {
	if p.url.IsSpecial() && (c == '/' || c == '\\') {
		p.state = stSpecialAuthorityIgnoreSlashes
		return resContinue
	}
	if c == '/' {
		p.state = stAuthority
		return resContinue
	}
	p.url.Username = p.base.Username
	p.url.Password = p.base.Password
	p.url.copyHostFrom(p.base)
	p.url.copyPortFrom(p.base)
	p.state = stPath
	p.pointer = p.pointer - 1
	return resContinue
}

func (p *parser) specialAuthoritySlashesState(c rune) int {
	if c == '/' && p.remainingStartsWith('/') {
		p.state = stSpecialAuthorityIgnoreSlashes
		p.pointer = p.pointer + 1
		return resContinue
	}
	p.state = stSpecialAuthorityIgnoreSlashes
	p.pointer = p.pointer - 1
	return resContinue
}

func (p *parser) specialAuthorityIgnoreSlashesState(c rune) int {
	if c != '/' && c != '\\' {
		p.state = stAuthority
		p.pointer = p.pointer - 1
	}
	return resContinue
}

func (p *parser) authorityState(c rune) int {
	if c == '@' {
		if p.atSignSeen {
			// Prepend "%40" to buffer.
			nb := make([]rune, 0, len(p.buffer)+3)
			nb = append(nb, '%', '4', '0')
			for i := 0; i < len(p.buffer); i++ {
				nb = append(nb, p.buffer[i])
			}
			p.buffer = nb
		}
		p.atSignSeen = true
		for i := 0; i < len(p.buffer); i++ {
			codePoint := p.buffer[i]
			if codePoint == ':' && !p.passwordTokenSeen {
				p.passwordTokenSeen = true
				continue
			}
			encoded := UTF8PercentEncodeRune(codePoint, SetUserinfo)
			if p.passwordTokenSeen {
				p.url.Password = p.url.Password + encoded
			} else {
				p.url.Username = p.url.Username + encoded
			}
		}
		p.buffer = p.buffer[:0]
		return resContinue
	}
	if isAuthorityTerminator(c) || p.isSpecialBackslash(c) {
		if p.atSignSeen && len(p.buffer) == 0 {
			return resFailure
		}
		p.pointer = p.pointer - (len(p.buffer) + 1)
		p.buffer = p.buffer[:0]
		p.state = stHost
		return resContinue
	}
	p.buffer = append(p.buffer, c)
	return resContinue
}

func (p *parser) hostState(c rune) int {
	if p.hasOverride() && p.url.Scheme == "file" {
		p.pointer = p.pointer - 1
		p.state = stFileHost
		return resContinue
	}
	if c == ':' && !p.insideBrackets {
		if len(p.buffer) == 0 {
			return resFailure
		}
		if p.override == stHostname {
			return resReturn
		}
		host, ok := parseHostRunes(p.buffer, !p.url.IsSpecial())
		if !ok {
			return resFailure
		}
		p.url.HasHost = true
		p.url.Host = host
		p.buffer = p.buffer[:0]
		p.state = stPort
		return resContinue
	}
	if isAuthorityTerminator(c) || p.isSpecialBackslash(c) {
		p.pointer = p.pointer - 1
		if p.url.IsSpecial() && len(p.buffer) == 0 {
			return resFailure
		}
		if p.hasOverride() && len(p.buffer) == 0 && (p.url.includesCredentials() || p.url.HasPort) {
			return resReturn
		}
		host, ok := parseHostRunes(p.buffer, !p.url.IsSpecial())
		if !ok {
			return resFailure
		}
		p.url.HasHost = true
		p.url.Host = host
		p.buffer = p.buffer[:0]
		p.state = stPathStart
		if p.hasOverride() {
			return resReturn
		}
		return resContinue
	}
	if c == '[' {
		p.insideBrackets = true
	}
	if c == ']' {
		p.insideBrackets = false
	}
	p.buffer = append(p.buffer, c)
	return resContinue
}

func (p *parser) portState(c rune) int {
	if isASCIIDigit(c) {
		p.buffer = append(p.buffer, c)
		return resContinue
	}
	if isAuthorityTerminator(c) || p.isSpecialBackslash(c) || p.hasOverride() {
		if len(p.buffer) != 0 {
			port := 0
			for i := 0; i < len(p.buffer); i++ {
				port = port*10 + int(p.buffer[i]-'0')
				if port > 65535 {
					return resFailure
				}
			}
			if isDefaultPort(p.url.Scheme, port) {
				p.url.HasPort = false
				p.url.Port = 0
			} else {
				p.url.HasPort = true
				p.url.Port = port
			}
			p.buffer = p.buffer[:0]
		}
		if p.hasOverride() {
			return resReturn
		}
		p.state = stPathStart
		p.pointer = p.pointer - 1
		return resContinue
	}
	return resFailure
}

func (p *parser) fileState(c rune) int {
	p.url.Scheme = "file"
	p.url.HasHost = true
	p.url.Host = ""
	if c == '/' || c == '\\' {
		p.state = stFileSlash
		return resContinue
	}
	if p.base != nil && p.base.Scheme == "file" {
		p.url.copyHostFrom(p.base)
		p.url.copyPathFrom(p.base)
		p.url.copyQueryFrom(p.base)
		if c == '?' {
			p.url.setQueryEmpty()
			p.state = stQuery
		} else if c == '#' {
			p.url.setFragmentEmpty()
			p.state = stFragment
		} else if c != eof {
			p.url.setQueryNull()
			if !startsWithWindowsDriveLetter(p.input, p.pointer) {
				p.url.shortenPath()
			} else {
				p.url.Opaque = false
				p.url.OpaquePath = ""
				p.url.Path = make([]string, 0, 4)
			}
			p.state = stPath
			p.pointer = p.pointer - 1
		}
		return resContinue
	}
	p.state = stPath
	p.pointer = p.pointer - 1
	return resContinue
}

func (p *parser) fileSlashState(c rune) int {
	if c == '/' || c == '\\' {
		p.state = stFileHost
		return resContinue
	}
	if p.base != nil && p.base.Scheme == "file" {
		p.url.copyHostFrom(p.base)
		if !startsWithWindowsDriveLetter(p.input, p.pointer) &&
			!p.base.Opaque && len(p.base.Path) > 0 &&
			isNormalizedWindowsDriveLetterString(p.base.Path[0]) {
			p.url.Path = append(p.url.Path, p.base.Path[0])
		}
	}
	p.state = stPath
	p.pointer = p.pointer - 1
	return resContinue
}

func (p *parser) fileHostState(c rune) int {
	if c == eof || c == '/' || c == '\\' || c == '?' || c == '#' {
		p.pointer = p.pointer - 1
		if !p.hasOverride() && isWindowsDriveLetter(p.buffer) {
			// The buffer is kept and used in the path state.
			p.state = stPath
			return resContinue
		}
		if len(p.buffer) == 0 {
			p.url.HasHost = true
			p.url.Host = ""
			if p.hasOverride() {
				return resReturn
			}
			p.state = stPathStart
			return resContinue
		}
		host, ok := parseHostRunes(p.buffer, !p.url.IsSpecial())
		if !ok {
			return resFailure
		}
		if host == "localhost" {
			host = ""
		}
		p.url.HasHost = true
		p.url.Host = host
		if p.hasOverride() {
			return resReturn
		}
		p.buffer = p.buffer[:0]
		p.state = stPathStart
		return resContinue
	}
	p.buffer = append(p.buffer, c)
	return resContinue
}

func (p *parser) pathStartState(c rune) int {
	if p.url.IsSpecial() {
		p.state = stPath
		if c != '/' && c != '\\' {
			p.pointer = p.pointer - 1
		}
		return resContinue
	}
	if !p.hasOverride() && c == '?' {
		p.url.setQueryEmpty()
		p.state = stQuery
		return resContinue
	}
	if !p.hasOverride() && c == '#' {
		p.url.setFragmentEmpty()
		p.state = stFragment
		return resContinue
	}
	if c != eof {
		p.state = stPath
		if c != '/' {
			p.pointer = p.pointer - 1
		}
		return resContinue
	}
	if p.hasOverride() && !p.url.HasHost {
		p.url.Path = append(p.url.Path, "")
	}
	return resContinue
}

func (p *parser) pathState(c rune) int {
	slash := c == '/' || p.isSpecialBackslash(c)
	if c == eof || slash || (!p.hasOverride() && (c == '?' || c == '#')) {
		if isDoubleDotSegment(p.buffer) {
			p.url.shortenPath()
			if !slash {
				p.url.Path = append(p.url.Path, "")
			}
		} else if isSingleDotSegment(p.buffer) && !slash {
			p.url.Path = append(p.url.Path, "")
		} else if !isSingleDotSegment(p.buffer) {
			if p.url.Scheme == "file" && len(p.url.Path) == 0 && isWindowsDriveLetter(p.buffer) {
				p.buffer[1] = ':'
			}
			p.url.Path = append(p.url.Path, string(p.buffer))
		}
		p.buffer = p.buffer[:0]
		if c == '?' {
			p.url.setQueryEmpty()
			p.state = stQuery
		}
		if c == '#' {
			p.url.setFragmentEmpty()
			p.state = stFragment
		}
		return resContinue
	}
	p.buffer = appendPercentEncoded(p.buffer, c, SetPath)
	return resContinue
}

func (p *parser) opaquePathState(c rune) int {
	if c == '?' {
		p.url.setQueryEmpty()
		p.state = stQuery
		return resContinue
	}
	if c == '#' {
		p.url.setFragmentEmpty()
		p.state = stFragment
		return resContinue
	}
	if c != eof {
		p.url.OpaquePath = p.url.OpaquePath + UTF8PercentEncodeRune(c, SetC0)
	}
	return resContinue
}

func (p *parser) queryState(c rune) int {
	if (!p.hasOverride() && c == '#') || c == eof {
		set := SetQuery
		if p.url.IsSpecial() {
			set = SetSpecialQuery
		}
		p.url.Query = p.url.Query + utf8PercentEncodeRunes(p.buffer, set)
		p.buffer = p.buffer[:0]
		if c == '#' {
			p.url.setFragmentEmpty()
			p.state = stFragment
		}
		return resContinue
	}
	p.buffer = append(p.buffer, c)
	return resContinue
}

func (p *parser) fragmentState(c rune) int {
	if c != eof {
		p.url.Fragment = p.url.Fragment + UTF8PercentEncodeRune(c, SetFragment)
	}
	return resContinue
}
