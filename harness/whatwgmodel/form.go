// form.go: Appendix A.5 - application/x-www-form-urlencoded parsing and
// serializing, and the URLSearchParams list operations.
package whatwgmodel

// Pair is one name-value tuple of a URLSearchParams list.
type Pair struct{ Name, Value string }

// plusToSpace replaces every 0x2B (+) by 0x20 (space).
func plusToSpace(s string) string {
	out := make([]byte, len(s))
	for i := 0; i < len(s); i++ {
		if s[i] == '+' {
			out[i] = ' '
		} else {
			out[i] = s[i]
		}
	}
	return string(out)
}

// utf8DecodeLossy is "UTF-8 decode without BOM" under the input convention:
// every byte that does not start a valid sequence becomes U+FFFD.
func utf8DecodeLossy(s string) string {
	return string([]rune(s))
}

// formDecodeComponent: replace + by space, percent-decode, UTF-8 decode.
func formDecodeComponent(s string) string {
	return utf8DecodeLossy(PercentDecode(plusToSpace(s)))
}

// indexOfByte is the index of the first b in s, or -1.
func indexOfByte(s string, b byte) int {
	for i := 0; i < len(s); i++ {
		if s[i] == b {
			return i
		}
	}
	return -1
}

// FormParse is the application/x-www-form-urlencoded parser.
func FormParse(query string) []Pair {
	sequences := splitOnByte(query, '&')
	output := make([]Pair, 0, len(sequences))
	for i := 0; i < len(sequences); i++ {
		bytes := sequences[i]
		if bytes == "" {
			continue
		}
		name := bytes
		value := ""
		eq := indexOfByte(bytes, '=')
		if eq >= 0 {
			name = bytes[:eq]
			value = bytes[eq+1:]
		}
		output = append(output, Pair{Name: formDecodeComponent(name), Value: formDecodeComponent(value)})
	}
	return output
}

// formSerializeComponent is "percent-encode after encoding" with UTF-8, the
// application/x-www-form-urlencoded percent-encode set and spaceAsPlus = true:
// space becomes +; * - . _, ASCII digits and ASCII letters stay; every other
// byte becomes %HH.
func formSerializeComponent(s string) string {
	out := ""
	for i := 0; i < len(s); i++ {
		b := s[i]
		if b == ' ' {
			out = out + "+"
		} else if !inFormSet(rune(b)) {
			out = out + string(rune(b))
		} else {
			out = out + percentEncodeByte(b)
		}
	}
	return out
}

// FormSerialize is the application/x-www-form-urlencoded serializer.
func FormSerialize(list []Pair) string {
	output := ""
	for i := 0; i < len(list); i++ {
		if i != 0 {
			output = output + "&"
		}
		output = output + formSerializeComponent(list[i].Name) + "=" + formSerializeComponent(list[i].Value)
	}
	return output
}

// ---- URLSearchParams list operations ----------------------------------------------

// ListAppend appends a new name-value pair.
func ListAppend(l []Pair, name, value string) []Pair {
	out := make([]Pair, 0, len(l)+1)
	for i := 0; i < len(l); i++ {
		out = append(out, l[i])
	}
	out = append(out, Pair{Name: name, Value: value})
	return out
}

// ListDelete removes all pairs whose name is name.
func ListDelete(l []Pair, name string) []Pair {
	out := make([]Pair, 0, len(l))
	for i := 0; i < len(l); i++ {
		if l[i].Name != name {
			out = append(out, l[i])
		}
	}
	return out
}

// ListGet returns the value of the first pair whose name is name.
func ListGet(l []Pair, name string) (string, bool) {
	for i := 0; i < len(l); i++ {
		if l[i].Name == name {
			return l[i].Value, true
		}
	}
	return "", false
}

// ListGetAll returns the values of all pairs whose name is name, in order.
func ListGetAll(l []Pair, name string) []string {
	out := make([]string, 0, len(l))
	for i := 0; i < len(l); i++ {
		if l[i].Name == name {
			out = append(out, l[i].Value)
		}
	}
	return out
}

// ListHas reports whether there is a pair whose name is name.
func ListHas(l []Pair, name string) bool {
	for i := 0; i < len(l); i++ {
		if l[i].Name == name {
			return true
		}
	}
	return false
}

// ListSet overwrites the value of the first pair whose name is name and removes
// the others; if there is none it appends a new pair.
func ListSet(l []Pair, name, value string) []Pair {
	out := make([]Pair, 0, len(l)+1)
	found := false
	for i := 0; i < len(l); i++ {
		if l[i].Name == name {
			if !found {
				out = append(out, Pair{Name: name, Value: value})
				found = true
			}
		} else {
			out = append(out, l[i])
		}
	}
	if !found {
		out = append(out, Pair{Name: name, Value: value})
	}
	return out
}

// lessBytes reports whether a sorts before b in byte-wise order.
func lessBytes(a, b string) bool {
	n := len(a)
	if len(b) < n {
		n = len(b)
	}
	for i := 0; i < n; i++ {
		if a[i] < b[i] {
			return true
		}
		if a[i] > b[i] {
			return false
		}
	}
	return len(a) < len(b)
}

// codeUnits: the UTF-16 code units of the scalar-value reading of s (bytes that are not valid UTF-8
// count as U+FFFD).
func codeUnits(s string) []uint16 {
	rs := []rune(s)
	out := make([]uint16, 0, len(s))
	for i := 0; i < len(rs); i++ {
		r := rs[i]
		if r >= 0x10000 {
			r = r - 0x10000
			out = append(out, uint16(0xD800+(r>>10)), uint16(0xDC00+(r&0x3FF)))
		} else {
			out = append(out, uint16(r))
		}
	}
	return out
}

// lessCodeUnits: the standard's order for URLSearchParams sort: "comparison of code units". It differs
// from byte-wise (= code point) order exactly when a code point in U+E000..U+FFFF meets one above U+FFFF.
func lessCodeUnits(a, b string) bool {
	x, y := codeUnits(a), codeUnits(b)
	for i := 0; i < len(x) && i < len(y); i++ {
		if x[i] != y[i] {
			return x[i] < y[i]
		}
	}
	return len(x) < len(y)
}

// ListSortStable sorts by name by comparison of UTF-16 code units, preserving the relative
// order of pairs with equal names (insertion sort).
func ListSortStable(l []Pair) []Pair {
	out := make([]Pair, len(l))
	copy(out, l)
	for i := 1; i < len(out); i++ {
		cur := out[i]
		j := i
		for j > 0 && lessCodeUnits(cur.Name, out[j-1].Name) {
			out[j] = out[j-1]
			j = j - 1
		}
		out[j] = cur
	}
	return out
}
