// Package vnd is the "nondet" interface between verification harnesses and the
// two things that can run them:
//
//   - the symbolic executor (/verif/engine, gosymex), which intercepts every call
//     to a function of this package by name and never looks at the bodies below;
//   - a native build (go test -overlay), in which the bodies below read the
//     recorded values of one solver witness from the file named by $VERIF_REPLAY,
//     so that the very same harness source replays a counterexample against the
//     natively compiled real code.
//
// The package is injected into the module under test as
// github.com/nlnwa/whatwg-url/internal/vnd through a build overlay; nothing is
// written to /repo.
package vnd

import (
	"encoding/json"
	"fmt"
	"os"
	"reflect"
	"sort"
	"strings"
	"sync"
	"time"
	"unsafe"

	"golang.org/x/net/idna"
)

// ---- replay state (native only) -------------------------------------------

type item struct {
	K string `json:"k"` // byte | bool | u16 | u32 | u64 | str | pick
	V uint64 `json:"v"`
	S []int  `json:"s,omitempty"` // bytes of a str
}

type replayFile struct {
	Harness string `json:"harness"`
	Values  []item `json:"values"`
}

var (
	loaded   bool
	rf       replayFile
	pos      int
	Observed []string // "name=hex" in call order
	Covered  []string
	Failed   []string
	Knowns   []string
)

// Load (native only) loads the replay file; called by the replay test.
func Load(path string) (string, error) {
	b, err := os.ReadFile(path)
	if err != nil {
		return "", err
	}
	rf = replayFile{}
	if err := json.Unmarshal(b, &rf); err != nil {
		return "", err
	}
	loaded = true
	pos = 0
	Observed, Covered, Failed, Knowns = nil, nil, nil, nil
	return rf.Harness, nil
}

// LoadValues (native only) installs one witness directly.
func LoadValues(raw []byte) (string, error) {
	rf = replayFile{}
	if err := json.Unmarshal(raw, &rf); err != nil {
		return "", err
	}
	loaded = true
	pos = 0
	Observed, Covered, Failed, Knowns = nil, nil, nil, nil
	return rf.Harness, nil
}

// ReplayMismatch is the panic value used when the native run asks for a
// different kind of value than the engine recorded (= an engine mismatch).
type ReplayMismatch struct{ Msg string }

// AssumeViolated is the panic value used when a native replay violates a
// harness assumption (= the witness is not inside the bound: engine mismatch).
type AssumeViolated struct{}

func next(kind string) item {
	if !loaded {
		panic(ReplayMismatch{"vnd used natively without a replay file"})
	}
	if pos >= len(rf.Values) {
		panic(ReplayMismatch{fmt.Sprintf("replay exhausted at #%d (want %s)", pos, kind)})
	}
	it := rf.Values[pos]
	pos++
	if it.K != kind {
		panic(ReplayMismatch{fmt.Sprintf("replay #%d is %s, harness asked for %s", pos-1, it.K, kind)})
	}
	return it
}

// ---- symbolic inputs ---------------------------------------------------------

// Byte returns an unconstrained byte.
func Byte() byte { return byte(next("byte").V) }

// Bool returns an unconstrained boolean.
func Bool() bool { return next("bool").V != 0 }

// U16 returns an unconstrained 16-bit value.
func U16() uint16 { return uint16(next("u16").V) }

// U32 returns an unconstrained 32-bit value.
func U32() uint32 { return uint32(next("u32").V) }

// U64 returns an unconstrained 64-bit value.
func U64() uint64 { return next("u64").V }

// Str returns a string of exactly n unconstrained bytes.
func Str(n int) string {
	it := next("str")
	if len(it.S) != n {
		panic(ReplayMismatch{fmt.Sprintf("replay str has %d bytes, harness asked for %d", len(it.S), n)})
	}
	b := make([]byte, n)
	for i, v := range it.S {
		b[i] = byte(v)
	}
	return string(b)
}

// StrOver returns a string of exactly n bytes each of which is assumed to be
// one of the bytes of alphabet (one per-byte disjunction, no forks).
func StrOver(n int, alphabet string) string {
	s := Str(n)
	for i := 0; i < len(s); i++ {
		if strings.IndexByte(alphabet, s[i]) < 0 {
			panic(AssumeViolated{})
		}
	}
	return s
}

// Input returns a concrete string supplied by the driver (self-test vectors).
func Input(name string) string {
	it := next("input")
	b := make([]byte, len(it.S))
	for i, v := range it.S {
		b[i] = byte(v)
	}
	return string(b)
}

// Pick returns a concrete choice in 0..n-1; the engine forks n ways.
func Pick(n int) int {
	v := int(next("pick").V)
	if v < 0 || v >= n {
		panic(ReplayMismatch{"pick out of range"})
	}
	return v
}

// Param returns a bound parameter that depends on the tier (quick/thorough);
// the value used is recorded so that replays use the same bound.
func Param(name string, quick, thorough int) int { return int(next("param").V) }

// Len returns a concrete length in 0..max; the engine forks max+1 ways.
func Len(max int) int { return Pick(max + 1) }

// ---- control ---------------------------------------------------------------------

// Assume restricts the explored inputs to those satisfying c.
func Assume(c bool) {
	if !c {
		panic(AssumeViolated{})
	}
}

// FailStop is the panic value that ends a native replay at the first Fail
// (the engine ends the path there too).
type FailStop struct{ Msg string }

// Fail states that the property is violated on this path.
func Fail(msg string) {
	Failed = append(Failed, msg)
	panic(FailStop{msg})
}

// Cover is a reachability witness: the engine requires that some explored path
// calls Cover(name, true) (vacuity guard).
func Cover(name string, c bool) {
	if c {
		Covered = append(Covered, name)
	}
}

// Observe records an output value. The engine evaluates the same value under
// the solver's witness and compares it with the native run (translation
// validation of the encoding).
func Observe(name string, val string) {
	Observed = append(Observed, name+"="+fmt.Sprintf("%x", val))
}

// ObserveInt is Observe for integers.
func ObserveInt(name string, val int) {
	Observed = append(Observed, name+"="+fmt.Sprintf("%x", fmt.Sprintf("%d", val)))
}

// ObserveBool is Observe for booleans.
func ObserveBool(name string, val bool) {
	Observed = append(Observed, name+"="+fmt.Sprintf("%x", fmt.Sprintf("%t", val)))
}

// Known marks the current path as lying inside the input class of the known
// finding id when inClass is true. Failures on such a path are attributed to
// that finding if (and only if) /verif/known-findings.json lists it as open.
func Known(id string, inClass bool) {
	if inClass {
		Knowns = append(Knowns, id)
	}
}

// Concurrently runs f as the operation under observation for C14. Under the engine f is
// executed once with the shared-state write monitor on: any store to an object that existed
// before the call ends the path as a violation candidate (a sequential sufficient condition for
// data-race freedom). Natively f runs in four goroutines at once, so that `go test -race`
// confirms the race.
func Concurrently(f func()) {
	before := fingerprintGlobals()
	var wg sync.WaitGroup
	for i := 0; i < 4; i++ {
		wg.Add(1)
		go func() {
			defer wg.Done()
			f()
		}()
	}
	wg.Wait()
	after := fingerprintGlobals()
	for i := range before {
		if i < len(after) && before[i] != after[i] {
			Fail("package-level state was modified after initialisation: " + globals[i].Name)
		}
	}
}

// ---- fingerprint of the package-level state of the packages under test (native only) ----
//
// The native replay build adds one generated file per package that registers the address of every
// package-level variable (the list is read from the package's current source). The fingerprint is a
// deep, address-free rendering of everything reachable from them inside the module (and the bitset
// library its tables are made of); values of other packages' types are opaque, except sync.Map,
// whose entries are listed. Used to confirm "no package-level table is modified after
// initialisation" for stores that the race detector cannot see because they are synchronised.

type Global struct {
	Name string
	Ptr  interface{}
}

var globals []Global

func RegisterGlobals(pkg string, gs []Global) {
	for _, g := range gs {
		g.Name = pkg + "." + g.Name
		globals = append(globals, g)
	}
}

func fingerprintGlobals() []string {
	out := make([]string, len(globals))
	for i, g := range globals {
		var b strings.Builder
		fpValue(&b, reflect.ValueOf(g.Ptr), 0, map[uintptr]bool{})
		out[i] = b.String()
	}
	return out
}

func fpOwnType(t reflect.Type) bool {
	p := t.PkgPath()
	return p == "" || strings.HasPrefix(p, "github.com/nlnwa/whatwg-url") || strings.HasPrefix(p, "github.com/bits-and-blooms/bitset")
}

var syncMapType = reflect.TypeOf(sync.Map{})

func fpValue(b *strings.Builder, v reflect.Value, depth int, seen map[uintptr]bool) {
	if depth > 14 || b.Len() > 1<<20 {
		b.WriteString("<deep>")
		return
	}
	if !v.IsValid() {
		b.WriteString("<invalid>")
		return
	}
	switch v.Kind() {
	case reflect.Bool:
		fmt.Fprintf(b, "%v", v.Bool())
	case reflect.Int, reflect.Int8, reflect.Int16, reflect.Int32, reflect.Int64:
		fmt.Fprintf(b, "%d", v.Int())
	case reflect.Uint, reflect.Uint8, reflect.Uint16, reflect.Uint32, reflect.Uint64:
		fmt.Fprintf(b, "%d", v.Uint())
	case reflect.Float32, reflect.Float64:
		fmt.Fprintf(b, "%g", v.Float())
	case reflect.String:
		fmt.Fprintf(b, "%q", v.String())
	case reflect.Ptr:
		if v.IsNil() {
			b.WriteString("nil")
			return
		}
		p := v.Pointer()
		if seen[p] {
			b.WriteString("<seen>")
			return
		}
		seen[p] = true
		b.WriteString("&")
		fpValue(b, v.Elem(), depth+1, seen)
	case reflect.Interface:
		if v.IsNil() {
			b.WriteString("nil")
			return
		}
		b.WriteString(v.Elem().Type().String())
		b.WriteString(":")
		fpValue(b, v.Elem(), depth+1, seen)
	case reflect.Slice:
		if v.IsNil() {
			b.WriteString("nil[]")
			return
		}
		fallthrough
	case reflect.Array:
		fmt.Fprintf(b, "[%d:", v.Len())
		for i := 0; i < v.Len(); i++ {
			fpValue(b, v.Index(i), depth+1, seen)
			b.WriteString(",")
		}
		b.WriteString("]")
	case reflect.Map:
		if v.IsNil() {
			b.WriteString("nilmap")
			return
		}
		var ents []string
		it := v.MapRange()
		for it.Next() {
			var e strings.Builder
			fpValue(&e, it.Key(), depth+1, seen)
			e.WriteString("=>")
			fpValue(&e, it.Value(), depth+1, seen)
			ents = append(ents, e.String())
		}
		sort.Strings(ents)
		fmt.Fprintf(b, "map%d{%s}", len(ents), strings.Join(ents, ";"))
	case reflect.Struct:
		t := v.Type()
		if t == syncMapType {
			if !v.CanAddr() {
				b.WriteString("<sync.Map>")
				return
			}
			m := (*sync.Map)(unsafe.Pointer(v.UnsafeAddr()))
			var ents []string
			m.Range(func(k, val interface{}) bool {
				var e strings.Builder
				fpValue(&e, reflect.ValueOf(k), depth+1, seen)
				e.WriteString("=>")
				fpValue(&e, reflect.ValueOf(val), depth+1, seen)
				ents = append(ents, e.String())
				return true
			})
			sort.Strings(ents)
			fmt.Fprintf(b, "syncmap%d{%s}", len(ents), strings.Join(ents, ";"))
			return
		}
		if !fpOwnType(t) {
			b.WriteString("<" + t.String() + ">")
			return
		}
		b.WriteString("{")
		for i := 0; i < v.NumField(); i++ {
			fpValue(b, v.Field(i), depth+1, seen)
			b.WriteString(";")
		}
		b.WriteString("}")
	default: // func, chan, unsafe pointer, uintptr, complex
		b.WriteString("<" + v.Kind().String() + ">")
	}
}

// Epoch starts a new allocation epoch and returns its number. Objects
// allocated before the call are "pre-existing" for the write monitor.
func Epoch() int { return 0 }

// WatchWrites switches the shared-state write monitor on or off: while on,
// a store to an object allocated before the most recent Epoch() call ends the
// path as a violation candidate (C14).
func WatchWrites(on bool) {}

// ---- stubs shared by implementation-side engine intrinsics and the models --------

var idnaProfile = idna.New(
	idna.MapForLookup(),
	idna.BidiRule(),
	idna.VerifyDNSLength(false),
	idna.StrictDomainName(false),
	idna.ValidateLabels(true),
	idna.CheckHyphens(false),
	idna.CheckJoiners(true),
	idna.Transitional(false),
)

// DomainToASCII is the standard's "domain to ASCII" with beStrict=false for
// inputs that are NOT (ASCII without ACE labels): the reference models call it
// only for non-ASCII or xn-- input. Natively it is the real UTS-46 processing;
// under the engine such a call ends the path as "outside bound: IDNA".
func DomainToASCII(s string) (string, bool) {
	a, err := idnaProfile.ToASCII(s)
	if err != nil || a == "" {
		return "", false
	}
	return a, true
}

// ---- batch replay (native only) ---------------------------------------------------

// Outcome of one native replay.
type Outcome struct {
	I        int      `json:"i"`
	Harness  string   `json:"harness"`
	Outcome  string   `json:"outcome"` // ok | fail | panic | mismatch | assume | hang | nohrn
	Msg      string   `json:"msg,omitempty"`
	Observed []string `json:"observed,omitempty"`
	Failed   []string `json:"failed,omitempty"`
	Knowns   []string `json:"knowns,omitempty"`
	Covered  []string `json:"covered,omitempty"`
}

// RunOne replays one witness (a JSON replay record) against the registry.
func RunOne(i int, raw []byte, reg map[string]func(), timeout time.Duration) Outcome {
	out := Outcome{I: i}
	name, err := LoadValues(raw)
	if err != nil {
		out.Outcome = "mismatch"
		out.Msg = "bad replay record: " + err.Error()
		return out
	}
	out.Harness = name
	fn, ok := reg[name]
	if !ok {
		out.Outcome = "nohrn"
		out.Msg = "harness not registered: " + name
		return out
	}
	done := make(chan Outcome, 1)
	go func() {
		o := Outcome{I: i, Harness: name, Outcome: "ok"}
		defer func() {
			if r := recover(); r != nil {
				switch e := r.(type) {
				case ReplayMismatch:
					o.Outcome = "mismatch"
					o.Msg = e.Msg
				case AssumeViolated:
					o.Outcome = "assume"
				case FailStop:
					o.Outcome = "fail"
					o.Msg = e.Msg
				default:
					o.Outcome = "panic"
					o.Msg = fmt.Sprint(r)
				}
			}
			o.Observed = Observed
			o.Failed = Failed
			o.Knowns = Knowns
			o.Covered = Covered
			if o.Outcome == "ok" && len(Failed) > 0 {
				o.Outcome = "fail"
				o.Msg = Failed[0]
			}
			done <- o
		}()
		fn()
	}()
	select {
	case o := <-done:
		return o
	case <-time.After(timeout):
		out.Outcome = "hang"
		out.Msg = "no result within " + timeout.String()
		return out
	}
}

// RunBatch replays every record (one JSON object per line) of the file named by
// $VERIF_REPLAY_BATCH and prints one "REPLAY {json}" line per record.
func RunBatch(reg map[string]func()) error {
	path := os.Getenv("VERIF_REPLAY_BATCH")
	if path == "" {
		return fmt.Errorf("VERIF_REPLAY_BATCH not set")
	}
	b, err := os.ReadFile(path)
	if err != nil {
		return err
	}
	timeout := 20 * time.Second
	if v := os.Getenv("VERIF_REPLAY_TIMEOUT_S"); v != "" {
		var n int
		fmt.Sscanf(v, "%d", &n)
		if n > 0 {
			timeout = time.Duration(n) * time.Second
		}
	}
	for i, line := range strings.Split(string(b), "\n") {
		line = strings.TrimSpace(line)
		if line == "" {
			continue
		}
		o := RunOne(i, []byte(line), reg, timeout)
		js, _ := json.Marshal(o)
		fmt.Printf("REPLAY %s\n", js)
		if o.Outcome == "hang" {
			// the hung goroutine still owns the replay state: stop here
			return fmt.Errorf("hang in record %d", i)
		}
	}
	return nil
}
