//go:build verif

package canonicalizer

import (
	"github.com/nlnwa/whatwg-url/internal/vnd"
	model "github.com/nlnwa/whatwg-url/internal/whatwgmodel"
	"github.com/nlnwa/whatwg-url/url"
)

type snap struct {
	fail                                                                         bool
	href, protocol, username, password, host, hostname, port, pathname, search, hash string
}

func snapImpl(u *url.Url, err error) snap {
	if err != nil || u == nil {
		return snap{fail: true}
	}
	return snap{href: u.Href(false), protocol: u.Protocol(), username: u.Username(), password: u.Password(), host: u.Host(),
		hostname: u.Hostname(), port: u.Port(), pathname: u.Pathname(), search: u.Search(), hash: u.Hash()}
}

func snapModel(mu *model.URL, ok bool) snap {
	if !ok || mu == nil {
		return snap{fail: true}
	}
	return snap{href: mu.Href(false), protocol: mu.Protocol(), username: mu.GetUsername(), password: mu.GetPassword(), host: mu.GetHost(),
		hostname: mu.Hostname(), port: mu.GetPort(), pathname: mu.Pathname(), search: mu.Search(), hash: mu.Hash()}
}

// verifCheckSnap returns "" when the two snapshots agree, else the first differing field.
func verifCheckSnap(a, b snap) string {
	if a.fail != b.fail {
		return "failure"
	}
	if a.fail {
		return ""
	}
	if a.href != b.href {
		return "href"
	}
	if a.protocol != b.protocol {
		return "protocol"
	}
	if a.username != b.username {
		return "username"
	}
	if a.password != b.password {
		return "password"
	}
	if a.host != b.host {
		return "host"
	}
	if a.hostname != b.hostname {
		return "hostname"
	}
	if a.port != b.port {
		return "port"
	}
	if a.pathname != b.pathname {
		return "pathname"
	}
	if a.search != b.search {
		return "search"
	}
	if a.hash != b.hash {
		return "hash"
	}
	return ""
}

func observeSnap(prefix string, s snap) {
	if s.fail {
		vnd.Observe(prefix+"href", "<failure>")
		return
	}
	vnd.Observe(prefix+"href", s.href)
}

func hasByte(s string, c byte) bool {
	for i := 0; i < len(s); i++ {
		if s[i] == c {
			return true
		}
	}
	return false
}

func isHexByte(b byte) bool {
	return (b >= '0' && b <= '9') || (b >= 'a' && b <= 'f') || (b >= 'A' && b <= 'F')
}

func hasPctHex(s string) bool {
	for i := 0; i+2 < len(s); i++ {
		if s[i] == '%' && isHexByte(s[i+1]) && isHexByte(s[i+2]) {
			return true
		}
	}
	return false
}

// windowInput: one of the web-URL contexts with a window of arbitrary bytes.
func windowInput(k int) string {
	ci := vnd.Pick(len(webCtx))
	return webCtx[ci].pre + vnd.Str(vnd.Len(k)) + webCtx[ci].suf
}

// nonASCIIScalar / runeWindowInput: as in the url-package harnesses: a window made of symbolic non-ASCII
// scalar values (whole code space per position), alone, doubled or next to one arbitrary byte.
func nonASCIIScalar() string {
	r := rune(vnd.U32())
	vnd.Assume(r >= 0x80 && ((r <= 0xD7FF) || (r >= 0xE000 && r <= 0x10FFFF)))
	return string(r)
}

func runeWindowInput(n int) string {
	ci := vnd.Pick(len(webCtx))
	w := nonASCIIScalar()
	if n >= 2 {
		switch vnd.Pick(4) {
		case 1:
			w = w + nonASCIIScalar()
		case 2:
			w = vnd.Str(1) + w
		case 3:
			w = w + vnd.Str(1)
		}
	}
	return webCtx[ci].pre + w + webCtx[ci].suf
}
