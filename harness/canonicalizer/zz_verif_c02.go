//go:build verif

package canonicalizer

import (
	"github.com/nlnwa/whatwg-url/internal/vnd"
	"github.com/nlnwa/whatwg-url/url"
)

// VerifC02Profiles: the predefined profiles and profiles composed from the canonicalizer's options
// (any subset; default scheme also invalid or odd) return normally for any input: no panic, termination,
// URL-or-error; getters work on the result.
func VerifC02Profiles() {
	var p url.Parser
	pi := vnd.Pick(6)
	// byte windows or windows of non-ASCII scalar values (decided first: the rune windows always use the
	// all-options-on composition, the subsets of options are explored with byte windows)
	runes := vnd.Bool()
	if pi < 4 {
		p = profiles[pi]
	} else {
		c := New().(*profile)
		if !runes && vnd.Param("C02.AllSubsets", 0, 0) == 1 {
			c.removeUserInfo = vnd.Bool()
			c.removePort = vnd.Bool()
			c.removeFragment = vnd.Bool()
			c.repeatedPercentDecoding = vnd.Bool()
			c.sortQuery = querySort(vnd.Pick(3))
		} else {
			c.removeUserInfo, c.removePort, c.removeFragment, c.repeatedPercentDecoding = true, true, true, true
			c.sortQuery = SortParameter
		}
		if pi == 5 {
			c.defaultScheme = []string{"http", "a", "9p", "h t", "-", "file"}[vnd.Pick(6)]
		}
		p = c
	}
	var in string
	if !runes {
		in = windowInput(vnd.Param("C02.KProfiles", 2, 2))
	} else {
		// non-ASCII scalar values of every length: encoding override (Semantic), repeated decoding and
		// re-encoding see code points they cannot represent
		in = runeWindowInput(vnd.Param("C02.KProfileRunes", 1, 2))
		vnd.Cover("profile-rune-window", true)
	}
	u, err := p.Parse(in)
	if err == nil && u == nil {
		vnd.Fail("profile Parse returned neither a URL nor an error")
	}
	vnd.Cover("profile-accepts", err == nil)
	if err == nil {
		_ = u.Href(false)
		_ = u.SearchParams().String()
		_ = u.Clone().Href(true)
	}
	u2, err2 := p.ParseRef("http://h/p/q?x#y", in)
	if err2 == nil && u2 == nil {
		vnd.Fail("profile ParseRef returned neither a URL nor an error")
	}
	if err2 == nil {
		_ = u2.Href(false)
	}
}

func init() {
	verifHarnesses["VerifC02Profiles"] = VerifC02Profiles
}
