//go:build verif

package canonicalizer

import (
	"testing"

	"github.com/nlnwa/whatwg-url/internal/vnd"
)

// TestVerifReplay replays solver witnesses against the natively compiled code.
func TestVerifReplay(t *testing.T) {
	if err := vnd.RunBatch(verifHarnesses); err != nil {
		t.Log(err)
	}
}
