//go:build verif

package canonicalizer

import (
	"github.com/nlnwa/whatwg-url/internal/vnd"
	model "github.com/nlnwa/whatwg-url/internal/whatwgmodel"
	"github.com/nlnwa/whatwg-url/url"
)

// composedProfile: a profile composed from the canonicalizer's own options. Thorough tier
// (C17.AllSubsets=1): the boolean options are symbolic (all subsets, each forks only where it is
// read), sort kind and default scheme picked. Quick tier: eight representative subsets.
func composedProfile() *profile {
	p := New().(*profile)
	if vnd.Param("C17.AllSubsets", 0, 1) == 1 {
		p.removeUserInfo = vnd.Bool()
		p.removePort = vnd.Bool()
		p.removeFragment = vnd.Bool()
		p.repeatedPercentDecoding = vnd.Bool()
		p.sortQuery = querySort(vnd.Pick(3))
		if vnd.Pick(2) == 1 {
			p.defaultScheme = "http"
		}
		return p
	}
	switch vnd.Pick(8) {
	case 0:
	case 1:
		p.removeUserInfo, p.removePort, p.removeFragment = true, true, true
	case 2:
		p.sortQuery = SortKeys
	case 3:
		p.sortQuery = SortParameter
		p.repeatedPercentDecoding = true
	case 4:
		p.repeatedPercentDecoding = true
	case 5:
		p.repeatedPercentDecoding = true
		p.removeFragment = true
		p.defaultScheme = "http"
	case 6:
		p.defaultScheme = "http"
		p.removePort = true
	case 7:
		p.removeUserInfo, p.removePort, p.removeFragment, p.repeatedPercentDecoding = true, true, true, true
		p.sortQuery = SortKeys
		p.defaultScheme = "http"
	}
	return p
}

// verifCheckIdempotent: canonicalizing the canonical string again succeeds and returns the same string.
func verifCheckIdempotent(p url.Parser, in string) (string, bool) {
	u, err := p.Parse(in)
	if err != nil {
		return "", false
	}
	s1 := u.String()
	vnd.Observe("canonical", s1)
	u2, err2 := p.Parse(s1)
	if err2 != nil {
		return "the canonical string is rejected by its own canonicalizer", true
	}
	if u2.String() != s1 {
		vnd.Observe("second", u2.String())
		return "canonicalizing the canonical string gives a different string", true
	}
	return "", true
}

// sortClass: the open finding shared with C11/C16: sorting re-serializes the decoded list without
// escaping & = + %HH. The class is stated on the decoded parameter list, exactly as in C11/C16: the
// query of the input - or of its first canonical form, which is what the second pass reads - decodes
// to a name containing & = + or a %HH triplet, or a value containing & + or a %HH triplet. Anything
// else that is not a fixed point under a sorting profile is a different violation and is reported.
func sortClass(p url.Parser, in string) bool {
	if queryDecodesToSeparators(in) {
		return true
	}
	if u, err := p.Parse(in); err == nil {
		return queryDecodesToSeparators(u.String())
	}
	return false
}

func queryDecodesToSeparators(in string) bool {
	mu, ok := model.Parse(in, nil)
	if !ok || !mu.HasQuery {
		return false
	}
	return classFSer(model.FormParse(mu.Query))
}

// idemDeepCtx: contexts in which a short window completes a (nested) escape whose decoding changes how
// the URL is re-read: a drive letter that only appears after decoding, a character the query serializer
// and the URL parser escape differently ('), a nested escape next to it, a percent sign before the window.
var idemDeepCtx = []vctx{
	{"file:///C%7", "/u/r.txt#p"}, {"file:///", "%7C/u"}, {"file:///C%257", "/u"}, {"file:///%2543%7", "/"},
	{"https://h/s?q=a'b&r=%257", "home"}, {"https://h/s?q='&r=", "%2541"}, {"https://h/s?'=%25", "1"},
	{"http://h/a%2", "/b"}, {"http://h/%25", "1"}, {"http://u%4", ":p@h/"},
}

// VerifC17IdemComposed: every profile composed from the canonicalizer's own options, all strings.
func VerifC17IdemComposed() {
	p := composedProfile()
	var in string
	if ci := vnd.Pick(len(webCtx) + len(idemDeepCtx)); ci < len(webCtx) {
		in = webCtx[ci].pre + vnd.Str(vnd.Len(vnd.Param("C17.KComposed", 2, 2))) + webCtx[ci].suf
	} else {
		c := idemDeepCtx[ci-len(webCtx)]
		in = c.pre + vnd.Str(vnd.Len(vnd.Param("C17.KComposed", 2, 2))) + c.suf
	}
	msg, ok := verifCheckIdempotent(p, in)
	vnd.Cover("canonicalized", ok)
	if msg != "" {
		vnd.Known("form-serialize-unescaped", p.sortQuery != NoSort && !p.repeatedPercentDecoding && sortClass(p, in))
		vnd.Known("repeated-decoding-plus", p.repeatedPercentDecoding && nestedEscapedPlus(in))
		vnd.Fail(msg)
	}
}

// nestedEscapedPlus: the class of the recorded finding repeated-decoding-plus: the text contains a '+'
// escaped at depth two or more (%252B, %25252b, ...), which repeated decoding turns into a literal '+'
// that neither the canonicalizer's re-encoding set nor the form serializer escapes.
func nestedEscapedPlus(s string) bool {
	for i := 0; i+5 <= len(s); i++ {
		if s[i] != '%' {
			continue
		}
		j := i + 1
		n := 0
		for j+2 <= len(s) && s[j] == '2' && s[j+1] == '5' {
			j += 2
			n++
		}
		if n >= 1 && j+2 <= len(s) && s[j] == '2' && (s[j+1] == 'B' || s[j+1] == 'b') {
			return true
		}
	}
	return false
}

// VerifC17IdemQuery: the query is where sort-query and repeated decoding interact: deeper window.
func VerifC17IdemQuery() {
	p := composedProfile()
	in := "http://h/p?" + vnd.StrOver(vnd.Len(vnd.Param("C17.KQuery", 3, 4)), "ab&=+%256 #") + "#f"
	msg, _ := verifCheckIdempotent(p, in)
	if msg != "" {
		vnd.Known("form-serialize-unescaped", p.sortQuery != NoSort && !p.repeatedPercentDecoding && sortClass(p, in))
		vnd.Fail(msg)
	}
}

// VerifC17IdemNamed: WhatWg and WhatWgSortQuery, all strings.
func VerifC17IdemNamed() {
	named := []url.Parser{WhatWg, WhatWgSortQuery}
	pi := vnd.Pick(2)
	in := windowInput(vnd.Param("C17.KNamed", 2, 3))
	msg, _ := verifCheckIdempotent(named[pi], in)
	if msg != "" {
		vnd.Known("form-serialize-unescaped", pi == 1 && sortClass(named[pi], in))
		vnd.Fail(msg)
	}
}

// ---- the ordinary-web-URL grammar (GoogleSafeBrowsing and Semantic) ----

const unreserved = "abcxyzABCXYZ0189-._~"

func hexDigit(v byte, upper bool) byte {
	if v < 10 {
		return '0' + v
	}
	if upper {
		return 'A' + v - 10
	}
	return 'a' + v - 10
}

// encByte: %HH of one (symbolic) byte, upper-case hex.
func encByte(b byte) string {
	return "%" + string([]byte{hexDigit(b>>4, true), hexDigit(b&15, true)})
}

// token: one symbolic unreserved byte in one of five spellings: literal, %HH, %25HH, %2525HH, and the
// unevenly nested %25 %25hh %25hh (the '%' of the escape encoded once, each of its hex digits twice),
// with the case of every hex letter symbolic.
func token(alphabet string) string {
	c := vnd.StrOver(1, alphabet)[0]
	// the case of each hex letter is a concrete choice (a fork), so that every byte of the spelling
	// depends on the one symbolic byte only
	h := []byte{hexDigit(c>>4, vnd.Pick(2) == 1), hexDigit(c&15, vnd.Pick(2) == 1)}
	switch vnd.Pick(5) {
	case 0:
		return string([]byte{c})
	case 1:
		return "%" + string(h)
	case 2:
		return "%25" + string(h)
	case 3:
		return "%2525" + string(h)
	}
	return "%25" + "%25" + encByte(h[0])[1:] + "%25" + encByte(h[1])[1:]
}

func tokens(n int, alphabet string) string {
	s := ""
	for i := 0; i < n; i++ {
		s += token(alphabet)
	}
	return s
}

// webURL builds a URL of the grammar: everything is simple and concrete except the hole
// `hole`, which consists of 1..k symbolic tokens.
func webURL(hole, k int) string {
	schemes := []string{"http", "https", "ftp", "ws", "wss"}
	sc := schemes[vnd.Pick(len(schemes))]
	part := func(i int, alphabet, deflt string) string {
		if i == hole {
			return tokens(1+vnd.Pick(k), alphabet)
		}
		return deflt
	}
	host := ""
	switch vnd.Pick(3) {
	case 0:
		// the last label starts with a letter: a host whose last label is numeric is either an IPv4
		// address or not a valid host at all (http://h.9/ is rejected by every profile), so it is
		// not an ordinary web URL
		host = part(0, "abcxyzABCXYZ0189-", "h") + ".c" + part(1, "abcxyzABCXYZ0189-", "1")
	case 1:
		host = "1.2.3.4"
	case 2:
		host = "[::1]"
	}
	// optional parts: thorough tier (C17.FullShapes=1) the full cross product, quick tier five shapes
	cred, port, query, frag := "", "", "", ""
	path := "/" + part(2, unreserved, "a") + "/" + part(3, unreserved, "b")
	var hasCred, hasQuery, hasFrag bool
	pi := 0
	if vnd.Param("C17.FullShapes", 0, 0) == 1 {
		hasCred, pi, hasQuery, hasFrag = vnd.Pick(2) == 1, vnd.Pick(3), vnd.Pick(2) == 1, vnd.Pick(2) == 1
	} else {
		switch vnd.Pick(5) {
		case 0:
		case 1:
			hasCred, pi = true, 1
		case 2:
			pi, hasQuery = 2, true
		case 3:
			hasQuery, hasFrag = true, true
		case 4:
			hasCred, pi, hasQuery, hasFrag = true, 2, true, true
		}
	}
	if hasCred {
		cred = "u:p@" // credentials are written literally (DESIGN §6 C18)
	}
	port = []string{"", ":8080", ":80"}[pi]
	if hasQuery {
		query = "?" + part(4, unreserved, "n") + "=" + part(5, unreserved, "v")
	}
	if hasFrag {
		frag = "#" + part(6, unreserved, "f")
	}
	return sc + "://" + cred + host + port + path + query + frag
}

// VerifC17IdemWeb: GoogleSafeBrowsing and Semantic are idempotent on every ordinary web URL.
func VerifC17IdemWeb() {
	exp := []url.Parser{GoogleSafeBrowsing, Semantic}
	p := exp[vnd.Pick(2)]
	in := webURL(vnd.Pick(7), vnd.Param("C17.KTokens", 1, 1))
	vnd.Observe("input", in)
	msg, ok := verifCheckIdempotent(p, in)
	// (a URL the profile rejects has no canonical string: the claim is vacuous for it; e.g. a host
	// whose last label is numeric but which is not an IPv4 address, http://h.9/)
	vnd.Cover("web-url", ok)
	if msg != "" {
		vnd.Fail(msg)
	}
}

// VerifC17IdemPairs: two query parameters: where sorting, ties and (nested) decoding interact.
func VerifC17IdemPairs() {
	var p url.Parser
	pick := vnd.Pick(5)
	switch pick {
	case 0:
		p = New(WithSortQuery(SortKeys))
	case 1:
		p = New(WithSortQuery(SortParameter))
	case 2:
		p = New(WithSortQuery(SortKeys), WithRepeatedPercentDecoding())
	case 3:
		p = New(WithSortQuery(SortParameter), WithRepeatedPercentDecoding())
	case 4:
		p = Semantic
	}
	var q string
	if vnd.Pick(2) == 0 {
		// short literal names and values over a b: every tie of name+value between distinct pairs
		k := vnd.Param("C17.KPair", 2, 2)
		q = vnd.StrOver(vnd.Len(k), "ab") + "=" + vnd.StrOver(vnd.Len(k), "ab") + "&" + vnd.StrOver(vnd.Len(k), "ab") + "=" + vnd.StrOver(vnd.Len(k), "ab")
	} else {
		// names as tokens in any (nested) spelling
		q = token("abzAZ019") + "=1&" + token("abzAZ019") + "=2"
	}
	in := "http://h.com/p?" + q
	vnd.Observe("input", in)
	msg, _ := verifCheckIdempotent(p, in)
	if msg != "" {
		// class: sorting WITHOUT repeated decoding (with it, names and values are stored pre-escaped)
		vnd.Known("form-serialize-unescaped", pick < 2 && sortClass(p, in))
		vnd.Fail(msg)
	}
}

func init() {
	verifHarnesses["VerifC17IdemPairs"] = VerifC17IdemPairs
	verifHarnesses["VerifC17IdemComposed"] = VerifC17IdemComposed
	verifHarnesses["VerifC17IdemQuery"] = VerifC17IdemQuery
	verifHarnesses["VerifC17IdemNamed"] = VerifC17IdemNamed
	verifHarnesses["VerifC17IdemWeb"] = VerifC17IdemWeb
}
