//go:build verif

package canonicalizer

import (
	"github.com/nlnwa/whatwg-url/errors"
	"github.com/nlnwa/whatwg-url/internal/vnd"
	model "github.com/nlnwa/whatwg-url/internal/whatwgmodel"
	"github.com/nlnwa/whatwg-url/url"
)

// VerifC16NoOpts: a profile or parser built without options behaves exactly like the default parser.
func VerifC16NoOpts() {
	in := windowInput(vnd.Param("C16.KNoOpts", 2, 3))
	d := snapImpl(url.Parse(in))
	if x := verifCheckSnap(snapImpl(New().Parse(in)), d); x != "" {
		vnd.Fail("canonicalizer.New() without options differs from the default parser: " + x)
	}
	if x := verifCheckSnap(snapImpl(url.NewParser().Parse(in)), d); x != "" {
		vnd.Fail("url.NewParser() without options differs from the default parser: " + x)
	}
	if x := verifCheckSnap(snapImpl(WhatWg.Parse(in)), d); x != "" {
		vnd.Fail("the WhatWg profile differs from the default parser: " + x)
	}
}

var credCtx = []vctx{
	{"http://", "@h/p"}, {"http://u:", "@h:8/p#f"}, {"a://", "@h/"}, {"http://h:", "/p"}, {"ws://u@h:", ""}, {"a://h:", "/p?q#f"},
	{"a:b  #", ""}, {"a:b ", ""}, {"http://h/p#", ""}, {"a:x y  ?q#", ""}, {"http://:", "@h/"},
	// an empty-but-present query or fragment next to an opaque path that ends in spaces
	{"a:b  ?#", ""}, {"a:b  ?", "#f"}, {"a:b  #", "?"}, {"a:b  ", "#"},
}

// VerifC16RemoveX: remove-user-info / remove-port / remove-fragment yield exactly what the
// standard's setters with the empty string yield on the underlying parser's result.
func VerifC16RemoveX() {
	ci := vnd.Pick(len(credCtx))
	in := credCtx[ci].pre + vnd.StrOver(vnd.Len(vnd.Param("C16.KRemove", 2, 3)), "aU:@8 0/#%4") + credCtx[ci].suf
	which := vnd.Pick(3)
	var p url.Parser
	mu, ok := model.Parse(in, nil)
	switch which {
	case 0:
		p = New(WithRemoveUserInfo())
		if ok {
			mu.SetUsername("")
			mu.SetPassword("")
		}
	case 1:
		p = New(WithRemovePort())
		if ok {
			mu.SetPort("")
		}
	case 2:
		p = New(WithRemoveFragment())
		if ok {
			mu.SetHash("")
		}
	}
	u, err := p.Parse(in)
	vnd.Cover("remove-applied", err == nil)
	si, sm := snapImpl(u, err), snapModel(mu, ok)
	if x := verifCheckSnap(si, sm); x != "" {
		observeSnap("impl.", si)
		observeSnap("std.", sm)
		vnd.Fail("a remove-* option differs from the standard's setter with \"\": " + x)
	}
	if err == nil {
		switch which {
		case 0:
			if u.Username() != "" || u.Password() != "" {
				vnd.Fail("credentials left after remove-user-info")
			}
		case 1:
			if u.Port() != "" {
				vnd.Fail("port left after remove-port")
			}
		case 2:
			if u.Hash() != "" || u.Href(false) != u.Href(true) {
				vnd.Fail("fragment left after remove-fragment")
			}
		}
	}
}

func decodedPairs(u *url.Url) []model.Pair {
	var out []model.Pair
	u.SearchParams().Iterate(func(p *url.NameValuePair) { out = append(out, model.Pair{Name: p.Name, Value: p.Value}) })
	return out
}

// sv: the scalar-value reading of a Go string (invalid UTF-8 bytes count as U+FFFD).
func sv(s string) string { return string([]rune(s)) }

func classFSer(list []model.Pair) bool {
	for _, p := range list {
		if hasByte(p.Name, '&') || hasByte(p.Name, '=') || hasByte(p.Name, '+') || hasPctHex(p.Name) ||
			hasByte(p.Value, '&') || hasByte(p.Value, '+') || hasPctHex(p.Value) {
			return true
		}
	}
	return false
}

// VerifC16SortQuery: sort-query only reorders the parameters (stable by name, or by name+value)
// and keeps the multiset of decoded pairs; nothing else changes.
func VerifC16SortQuery() {
	q := vnd.StrOver(vnd.Len(vnd.Param("C16.KSort", 5, 6)), "ba&=+%26")
	in := "http://h/p?" + q + "#f"
	full := vnd.Pick(2) == 1
	p := New(WithSortQuery(SortKeys))
	if full {
		p = New(WithSortQuery(SortParameter))
	}
	d, derr := url.Parse(in)
	u, err := p.Parse(in)
	if (err != nil) != (derr != nil) {
		vnd.Fail("sort-query changed whether the input parses")
	}
	if err != nil {
		return
	}
	before := decodedPairs(d)
	after := decodedPairs(u)
	fail := ""
	if u.Protocol() != d.Protocol() || u.Host() != d.Host() || u.Pathname() != d.Pathname() || u.Hash() != d.Hash() || u.Username() != d.Username() {
		fail = "sort-query changed something other than the query"
	}
	want := before
	if !full {
		want = model.ListSortStable(before)
		if len(after) != len(want) {
			fail = "sort-query changed the number of parameters"
		} else {
			for i := range want {
				if after[i].Name != want[i].Name || after[i].Value != want[i].Value {
					fail = "sort-query (keys) is not the stable sort by name of the decoded parameters"
				}
			}
		}
	} else {
		if len(after) != len(before) {
			fail = "sort-query changed the number of parameters"
		}
		for i := 0; i+1 < len(after); i++ {
			if after[i].Name+after[i].Value > after[i+1].Name+after[i+1].Value {
				fail = "sort-query (parameter) result is not ordered by name+value"
			}
		}
		for _, x := range before {
			cb, ca := 0, 0
			for _, y := range before {
				if x.Name == y.Name && x.Value == y.Value {
					cb++
				}
			}
			for _, y := range after {
				if x.Name == y.Name && x.Value == y.Value {
					ca++
				}
			}
			if cb != ca {
				fail = "sort-query changed the multiset of decoded parameters"
			}
		}
	}
	// the sorted list is what the URL now says: re-reading the result gives the same list
	rr, rerr := url.Parse(u.Href(false))
	if rerr != nil {
		fail = "the result of sort-query does not parse"
	} else if fail == "" {
		again := decodedPairs(rr)
		if len(again) != len(after) {
			fail = "re-reading the sorted URL gives a different number of parameters"
		} else {
			for i := range again {
				if sv(again[i].Name) != sv(after[i].Name) || sv(again[i].Value) != sv(after[i].Value) {
					fail = "re-reading the sorted URL gives different parameters"
				}
			}
		}
	}
	if fail != "" {
		vnd.Known("form-serialize-unescaped", classFSer(before))
		vnd.Fail(fail)
	}
}

// VerifC16SortQueryLong: stability of sort-query on queries long enough for the sorting library to
// switch algorithm (13..16 parameters, names a/b chosen by 7 symbolic bits, distinct values).
func VerifC16SortQueryLong() {
	profs := []url.Parser{New(WithSortQuery(SortKeys)), WhatWgSortQuery, Semantic}
	p := profs[vnd.Pick(len(profs))]
	n := 13 + vnd.Pick(vnd.Param("C16.NLong", 4, 20))
	var bit [7]bool
	for i := range bit {
		bit[i] = vnd.Bool()
	}
	q := ""
	var want []model.Pair
	for i := 0; i < n; i++ {
		nm := "b"
		if bit[(i*3)%7] {
			nm = "a"
		}
		vl := string([]byte{'0' + byte(i/10), '0' + byte(i%10)})
		if i > 0 {
			q += "&"
		}
		q += nm + "=" + vl
		want = append(want, model.Pair{Name: nm, Value: vl})
	}
	want = model.ListSortStable(want)
	u, err := p.Parse("http://h.com/p?" + q)
	if err != nil {
		vnd.Fail("a plain query is rejected")
	}
	got := decodedPairs(u)
	if len(got) != len(want) {
		vnd.Fail("sort-query changed the number of parameters")
	}
	for i := range want {
		if got[i].Name != want[i].Name || got[i].Value != want[i].Value {
			vnd.Fail("sort-query (keys) is not the stable sort by name")
		}
	}
}

// VerifC16DefaultScheme: default-scheme parses an input that fails only for lack of a scheme as
// scheme://input and leaves other inputs unaffected.
func VerifC16DefaultScheme() {
	in := windowInput(vnd.Param("C16.KDefault", 2, 3))
	schemes := []string{"http", "a"}
	sc := schemes[vnd.Pick(2)]
	p := New(WithDefaultScheme(sc))
	d, derr := url.Parse(in)
	u, err := p.Parse(in)
	if derr != nil && errors.Type(derr) == errors.MissingSchemeNonRelativeURL {
		vnd.Cover("default-scheme-applied", true)
		w, werr := url.Parse(sc + "://" + in)
		if x := verifCheckSnap(snapImpl(u, err), snapImpl(w, werr)); x != "" {
			vnd.Fail("default-scheme result is not the parse of scheme://input: " + x)
		}
		return
	}
	if x := verifCheckSnap(snapImpl(u, err), snapImpl(d, derr)); x != "" {
		vnd.Fail("default-scheme changed an input that does not lack a scheme: " + x)
	}
}

func validUTF8(s string) bool {
	for _, r := range s {
		if r == 0xFFFD {
			// either a literal U+FFFD or an invalid byte: treat as trigger (broad)
			return false
		}
	}
	return true
}

func allPercentsAreEscapes(s string) bool {
	for i := 0; i < len(s); i++ {
		if s[i] == '%' && !(i+2 < len(s) && isHexByte(s[i+1]) && isHexByte(s[i+2])) {
			return false
		}
	}
	return true
}

// slashRun: two adjacent characters from {/, \} after tab/newline removal (broad trigger; the
// '//' after a scheme is supplied by the contexts and also counts, so only contexts without one are neutral).
func slashRun(s string) bool {
	prev := false
	for i := 0; i < len(s); i++ {
		c := s[i]
		if c == 0x09 || c == 0x0A || c == 0x0D {
			continue
		}
		sl := c == '/' || c == '\\'
		if sl && prev {
			return true
		}
		prev = sl
	}
	return false
}

var gopherSchemes = map[string]string{"ftp": "21", "file": "", "http": "80", "https": "443", "ws": "80", "wss": "443", "gopher": "70"}

func startsWithScheme(in, scheme string) bool {
	// broad: the cleaned input starts with the scheme name (case-insensitive) - or contains tab/newline/leading junk
	j := 0
	for i := 0; i < len(in) && j < len(scheme); i++ {
		c := in[i]
		if c <= 0x20 {
			continue
		}
		if c >= 'A' && c <= 'Z' {
			c += 32
		}
		if c != scheme[j] {
			return false
		}
		j++
	}
	return j == len(scheme)
}

// neutralCtx: contexts for the neutrality clauses; rest is the offset in pre where the part after the
// scheme's own "//" (if any) starts: a slash run is looked for from there on.
type nctx struct {
	pre, suf string
	rest     int
}

var neutralCtx = []nctx{
	{"", "", 0}, {"http://h/", "", 7}, {"http://h/a/", "/b", 7}, {"http://h/?", "", 7}, {"http://h/#", "", 7}, {"http://", "/", 7}, {"a:/", "", 2}, {"file:///", "", 7},
	{"a://", "/p", 4}, {"gopher://h/", "", 9}, {"gopher:", "", 7}, {"http://h/a%", "", 7},
}

// VerifC16Neutral: each relaxing/extending parser option is a conservative extension: it changes
// the result only for inputs that contain its trigger.
func VerifC16Neutral() {
	ci := vnd.Pick(len(neutralCtx))
	w := vnd.Str(vnd.Len(vnd.Param("C16.KNeutral", 2, 3)))
	in := neutralCtx[ci].pre + w + neutralCtx[ci].suf
	d, derr := url.Parse(in)
	sd := snapImpl(d, derr)
	var p url.Parser
	trigger := false
	name := ""
	switch vnd.Pick(6) {
	case 0:
		p, name = url.NewParser(url.WithAcceptInvalidCodepoints()), "accept-invalid-code-points"
		trigger = !validUTF8(in)
	case 1:
		p, name = url.NewParser(url.WithPercentEncodeSinglePercentSign()), "percent-encode-single-percent-sign"
		trigger = !allPercentsAreEscapes(in)
	case 2:
		p, name = url.NewParser(url.WithCollapseConsecutiveSlashes()), "collapse-consecutive-slashes"
		// broad trigger: any two adjacent slashes/backslashes after the scheme's own '//' (tab/newline skipped)
		trigger = slashRun(in[neutralCtx[ci].rest:])
	case 3:
		p, name = url.NewParser(url.WithSkipWindowsDriveLetterNormalization()), "skip-drive-letter-normalization"
		trigger = hasByte(in, '|')
	case 4:
		p, name = url.NewParser(url.WithSpecialSchemes(gopherSchemes)), "special-schemes"
		trigger = startsWithScheme(in, "gopher")
	case 5:
		p, name = url.NewParser(url.WithLaxHostParsing()), "lax-host-parsing"
		trigger = derr != nil
	}
	if trigger {
		vnd.Cover("trigger-present", true)
		return
	}
	vnd.Cover("trigger-absent", true)
	u, err := p.Parse(in)
	if x := verifCheckSnap(snapImpl(u, err), sd); x != "" {
		vnd.Fail("option " + name + " changed the result of an input without its trigger: " + x)
	}
}

// neutralOption: option number -> parser option, name and the trigger predicate on a text.
func neutralOption(i int) (url.ParserOption, string) {
	switch i {
	case 0:
		return url.WithAcceptInvalidCodepoints(), "accept-invalid-code-points"
	case 1:
		return url.WithPercentEncodeSinglePercentSign(), "percent-encode-single-percent-sign"
	case 2:
		return url.WithCollapseConsecutiveSlashes(), "collapse-consecutive-slashes"
	case 3:
		return url.WithSkipWindowsDriveLetterNormalization(), "skip-drive-letter-normalization"
	case 4:
		return url.WithSpecialSchemes(gopherSchemes), "special-schemes"
	}
	return url.WithLaxHostParsing(), "lax-host-parsing"
}

func neutralTrigger(i int, text string) bool {
	switch i {
	case 0:
		return !validUTF8(text)
	case 1:
		return !allPercentsAreEscapes(text)
	case 2:
		return slashRun(text)
	case 3:
		return hasByte(text, '|')
	case 4:
		return startsWithScheme(text, "gopher")
	}
	return false
}

func applySetterByIndex(u *url.Url, i int, v string) {
	switch i {
	case 0:
		u.SetUsername(v)
	case 1:
		u.SetPassword(v)
	case 2:
		u.SetHost(v)
	case 3:
		u.SetHostname(v)
	case 4:
		u.SetPathname(v)
	case 5:
		u.SetSearch(v)
	case 6:
		u.SetHash(v)
	case 7:
		u.SetProtocol(v)
	case 8:
		u.SetPort(v)
	}
}

// VerifC16NeutralSetters: the conservative-extension clause through the setters: a URL parsed by a parser
// with one relaxing option (or two of them) and the same URL parsed by the default parser stay equal
// under the same setter call, as long as neither the start URL nor the value contains a trigger of the
// options in force (and, for lax host parsing, the default parser accepts the host value).
func VerifC16NeutralSetters() {
	starts := []string{"http://u@h/p?q#f", "a://h/p"}
	start := starts[vnd.Pick(len(starts))]
	o1 := vnd.Pick(6)
	opt1, name := neutralOption(o1)
	opts := []url.ParserOption{opt1}
	o2 := -1
	if vnd.Bool() {
		// a second option: combinations
		o2 = (o1 + 1 + vnd.Pick(5)) % 6
		opt2, name2 := neutralOption(o2)
		opts = append(opts, opt2)
		name = name + " + " + name2
	}
	p := url.NewParser(opts...)
	v := vnd.StrOver(vnd.Len(vnd.Param("C16.KNeutralSet", 3, 4)), "%41a|/\\ \xff")
	if neutralTrigger(o1, v) || (o2 >= 0 && neutralTrigger(o2, v)) {
		vnd.Cover("setter-trigger-present", true)
		return
	}
	si := vnd.Pick(9)
	u, err := p.Parse(start)
	d, derr := url.Parse(start)
	if err != nil || derr != nil {
		return
	}
	applySetterByIndex(d, si, v)
	applySetterByIndex(u, si, v)
	if (o1 == 5 || o2 == 5) && (si == 2 || si == 3) {
		// lax host parsing: its trigger is "a host the default parser rejects": the default parser's
		// setter leaves the host unchanged exactly then
		// (probed in the start URL's own scheme class: opaque and domain hosts have different rules)
		pre := "http://"
		if start[0] == 'a' {
			pre = "a://"
		}
		if _, perr := url.Parse(pre + v + "/"); perr != nil {
			return
		}
	}
	vnd.Cover("setter-trigger-absent", true)
	if x := verifCheckSnap(snapImpl(u, nil), snapImpl(d, nil)); x != "" {
		vnd.Fail("option " + name + " changed the result of a setter call whose value has no trigger: " + x)
	}
}

func pctEncodeByte(c byte) string {
	const hexd = "0123456789ABCDEF"
	return string([]byte{'%', hexd[c>>4], hexd[c&15]})
}

func replaceByte(s string, c byte, with string) string {
	out := make([]byte, 0, len(s)+8)
	for i := 0; i < len(s); i++ {
		if s[i] == c {
			out = append(out, with...)
		} else {
			out = append(out, s[i])
		}
	}
	return string(out)
}

// VerifC16EncodeSets: a replaced percent-encode set governs exactly the component and scheme class it names.
func VerifC16EncodeSets() {
	extras := []byte{'|', '$', '!', '~', 'a'}
	c := extras[vnd.Pick(len(extras))]
	which := vnd.Pick(5)
	special := vnd.Pick(2) == 1
	w := vnd.StrOver(vnd.Len(vnd.Param("C16.KSets", 3, 4)), "|$!~ab %4\"'")
	pre := "a://h"
	if special {
		pre = "http://h"
	}
	in := pre + "/" + w + "?" + w + "#" + w
	var p url.Parser
	switch which {
	case 0:
		p = url.NewParser(url.WithPathPercentEncodeSet(url.PathPercentEncodeSet.Set(uint(c))))
	case 1:
		p = url.NewParser(url.WithQueryPercentEncodeSet(url.QueryPercentEncodeSet.Set(uint(c))))
	case 2:
		p = url.NewParser(url.WithSpecialQueryPercentEncodeSet(url.SpecialQueryPercentEncodeSet.Set(uint(c))))
	case 3:
		p = url.NewParser(url.WithFragmentPathPercentEncodeSet(url.FragmentPercentEncodeSet.Set(uint(c))))
	case 4:
		p = url.NewParser(url.WithSpecialFragmentPathPercentEncodeSet(url.FragmentPercentEncodeSet.Set(uint(c))))
	}
	d, derr := url.Parse(in)
	u, err := p.Parse(in)
	if derr != nil || err != nil {
		if (derr != nil) != (err != nil) {
			vnd.Fail("a replaced percent-encode set changed whether the input parses")
		}
		return
	}
	enc := pctEncodeByte(c)
	wantPath, wantSearch, wantHash := d.Pathname(), d.Search(), d.Hash()
	switch {
	case which == 0:
		wantPath = replaceByte(wantPath, c, enc)
	case which == 1 && !special, which == 2 && special:
		wantSearch = replaceByte(wantSearch, c, enc)
	case which == 3 && !special, which == 4 && special:
		wantHash = replaceByte(wantHash, c, enc)
	}
	vnd.Cover("set-governs", wantPath != d.Pathname() || wantSearch != d.Search() || wantHash != d.Hash())
	if u.Pathname() != wantPath || u.Search() != wantSearch || u.Hash() != wantHash || u.Host() != d.Host() || u.Protocol() != d.Protocol() {
		vnd.Observe("href", u.Href(false))
		vnd.Fail("a replaced percent-encode set does not govern exactly the component and scheme class it names")
	}
}

func hasDotSegment(path string) bool {
	// broad class of the open finding: some segment is a dot segment in any spelling
	l := []byte(path)
	for i := 0; i < len(l); i++ {
		if l[i] == '.' || (l[i] == '%' && i+2 < len(l) && l[i+1] == '2' && (l[i+2] == 'e' || l[i+2] == 'E')) {
			return true
		}
	}
	return false
}

// VerifC16Effects: collapsing leaves no empty non-final segment in a special URL's path; skip-equals
// omits '=' only for empty values; an added special scheme gets special parsing and default-port elision.
func VerifC16Effects() {
	switch vnd.Pick(3) {
	case 0:
		w := vnd.StrOver(vnd.Len(vnd.Param("C16.KCollapse", 5, 6)), "a/\\.%2e|:")
		schemes := []string{"http://h/", "file:///", "https://h"}
		in := schemes[vnd.Pick(3)] + w
		u, err := url.NewParser(url.WithCollapseConsecutiveSlashes()).Parse(in)
		if err != nil {
			return
		}
		pn := u.Pathname()
		for i := 0; i+1 < len(pn); i++ {
			if pn[i] == '/' && pn[i+1] == '/' {
				vnd.Known("collapse-dot-segment", hasDotSegment(w))
				vnd.Fail("an empty non-final segment is left in a special URL's path after collapsing slashes")
			}
		}
	case 1:
		q := vnd.StrOver(vnd.Len(vnd.Param("C16.KSkipEq", 4, 5)), "ab&=")
		in := "http://h/?" + q
		d, derr := url.Parse(in)
		u, err := url.NewParser(url.WithSkipEqualsForEmptySearchParamsValue()).Parse(in)
		if derr != nil || err != nil {
			return
		}
		// force both serializations
		d.SearchParams().Append("z", "")
		u.SearchParams().Append("z", "")
		dl, ul := decodedPairs(d), decodedPairs(u)
		if len(dl) != len(ul) {
			vnd.Fail("skip-equals changed the parameters")
		}
		want := make([]byte, 0, 32)
		for i, p := range dl {
			if i > 0 {
				want = append(want, '&')
			}
			want = append(want, p.Name...)
			if p.Value != "" {
				want = append(want, '=')
				want = append(want, p.Value...)
			}
		}
		if u.Query() != string(want) {
			vnd.Fail("skip-equals does not omit '=' exactly for the empty values")
		}
	case 2:
		w := vnd.StrOver(vnd.Len(vnd.Param("C16.KSpecial", 3, 4)), "a/\\:70'?#.")
		g, gerr := url.NewParser(url.WithSpecialSchemes(gopherSchemes)).Parse("gopher://h" + w)
		s, serr := url.Parse("ws://h" + replaceByte(replaceByte(w, '7', "8"), 'x', "x"))
		// the added scheme behaves like a built-in special scheme with default port 70 (ws: 80)
		if (gerr != nil) != (serr != nil) {
			vnd.Fail("an added special scheme is not parsed like a special scheme (acceptance)")
		}
		if gerr != nil {
			return
		}
		if !g.IsSpecialScheme() {
			vnd.Fail("the added scheme is not special")
		}
		if g.Port() != replaceByte(s.Port(), '8', "7") || g.Pathname() != replaceByte(s.Pathname(), '8', "7") || g.Search() != replaceByte(s.Search(), '8', "7") || g.Hash() != replaceByte(s.Hash(), '8', "7") {
			vnd.Observe("gopher", g.Href(false))
			vnd.Observe("ws", s.Href(false))
			vnd.Fail("an added special scheme does not get special-scheme parsing and default-port elision")
		}
	}
}

func init() {
	verifHarnesses["VerifC16NeutralSetters"] = VerifC16NeutralSetters
	verifHarnesses["VerifC16NoOpts"] = VerifC16NoOpts
	verifHarnesses["VerifC16RemoveX"] = VerifC16RemoveX
	verifHarnesses["VerifC16SortQuery"] = VerifC16SortQuery
	verifHarnesses["VerifC16SortQueryLong"] = VerifC16SortQueryLong
	verifHarnesses["VerifC16DefaultScheme"] = VerifC16DefaultScheme
	verifHarnesses["VerifC16Neutral"] = VerifC16Neutral
	verifHarnesses["VerifC16EncodeSets"] = VerifC16EncodeSets
	verifHarnesses["VerifC16Effects"] = VerifC16Effects
}
