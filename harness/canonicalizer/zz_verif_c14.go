//go:build verif

package canonicalizer

import (
	"github.com/nlnwa/whatwg-url/internal/vnd"
	"github.com/nlnwa/whatwg-url/url"
)

var profiles = []url.Parser{WhatWg, WhatWgSortQuery, GoogleSafeBrowsing, Semantic}
var profileNames = []string{"WhatWg", "WhatWgSortQuery", "GoogleSafeBrowsing", "Semantic"}

type vctx struct{ pre, suf string }

// webCtx: contexts that put the window into each component of a web URL.
var webCtx = []vctx{
	{"", ""}, {"http://", "/"}, {"http://h", ""}, {"http://h/", ""}, {"http://h/a/", "/b"}, {"http://h/?", ""}, {"http://h/?a=", "&b"}, {"http://h/#", ""},
	{"http://u:p", "@h/"}, {"http://h:", "/"}, {"h", ""}, {"a:", ""}, {"file:///", ""}, {"gopher://h", "/"},
}

// VerifC14SharedProfiles: the predefined profiles used from several goroutines: no store hits
// pre-existing state (profile values, parsers, encode sets, package-level tables).
func VerifC14SharedProfiles() {
	pi := vnd.Pick(len(profiles))
	ci := vnd.Pick(len(webCtx))
	in := webCtx[ci].pre + vnd.Str(vnd.Len(vnd.Param("C14.KProf", 2, 3))) + webCtx[ci].suf
	p := profiles[pi]
	vnd.Cover("profile-used", true)
	vnd.Concurrently(func() {
		u, err := p.Parse(in)
		if err == nil {
			_ = u.Href(false)
		}
		u2, err2 := p.ParseRef("http://h/p/q?x#y", in)
		if err2 == nil {
			_ = u2.Href(false)
		}
	})
}


// histHosts: hosts for the history-independence harness; the non-ASCII ones are accepted by IDNA,
// two of them are each other's ISO 8859-1 / UTF-8 misreadings (relevant to the Semantic profile,
// which decodes the host with an encoding override before IDNA).
var histHosts = []string{"h", "EXAMPLE.com", "bücher.de", "Ã¸l.no", "øl.no", "xn--bcher-kva.de", "1.2.3.4", "[::1]", "a%2Db", "0x7f.1"}

// VerifC14HistoryProfiles: "every call returns exactly what it returns when run alone": the result of
// a call on one profile does not depend on which calls - on the same or another profile, with the
// same or another host - were made in the process before it. Sequence: A(in1) ; B(in2) ; A(in1),
// first and last result must agree. (With goroutines the middle call is "some other goroutine got
// there first".) Natively each witness is replayed in a fresh process.
func VerifC14HistoryProfiles() {
	ai := vnd.Pick(len(profiles))
	bi := vnd.Pick(len(profiles))
	hi := vnd.Pick(len(histHosts))
	hj := hi
	if vnd.Bool() {
		hj = (hi + 1) % len(histHosts)
	}
	w := vnd.Str(vnd.Len(vnd.Param("C14.KHist", 1, 2)))
	in1 := "http://" + histHosts[hi] + "/" + w
	in2 := "http://" + histHosts[hj] + "/" + w
	a, b := profiles[ai], profiles[bi]
	u1, e1 := a.Parse(in1)
	s1 := snapImpl(u1, e1)
	if ub, eb := b.Parse(in2); eb == nil {
		_ = ub.Href(false)
	}
	u2, e2 := a.Parse(in1)
	s2 := snapImpl(u2, e2)
	vnd.Cover("history-second-call-succeeds", !s2.fail)
	if d := verifCheckSnap(s1, s2); d != "" {
		observeSnap("alone.", s1)
		observeSnap("after.", s2)
		vnd.Fail("C14: a call returns something else after other calls were made in the process: " + d + " differs (profile " + profileNames[ai] + " after " + profileNames[bi] + ")")
	}
}

func init() {
	verifHarnesses["VerifC14SharedProfiles"] = VerifC14SharedProfiles
	verifHarnesses["VerifC14HistoryProfiles"] = VerifC14HistoryProfiles
}
