//go:build verif

package canonicalizer

import (
	"github.com/nlnwa/whatwg-url/internal/vnd"
	"github.com/nlnwa/whatwg-url/url"
)

var profiles = []url.Parser{WhatWg, WhatWgSortQuery, GoogleSafeBrowsing, Semantic}
var profileNames = []string{"WhatWg", "WhatWgSortQuery", "GoogleSafeBrowsing", "Semantic"}

type vctx struct{ pre, suf string }

// webCtx: contexts that put the window into each component of a web URL.
var webCtx = []vctx{
	{"", ""}, {"http://", "/"}, {"http://h", ""}, {"http://h/", ""}, {"http://h/a/", "/b"}, {"http://h/?", ""}, {"http://h/?a=", "&b"}, {"http://h/#", ""},
	{"http://u:p", "@h/"}, {"http://h:", "/"}, {"h", ""}, {"a:", ""}, {"file:///", ""}, {"gopher://h", "/"},
}

// VerifC14SharedProfiles: the predefined profiles used from several goroutines: no store hits
// pre-existing state (profile values, parsers, encode sets, package-level tables).
func VerifC14SharedProfiles() {
	pi := vnd.Pick(len(profiles))
	ci := vnd.Pick(len(webCtx))
	in := webCtx[ci].pre + vnd.Str(vnd.Len(vnd.Param("C14.KProf", 2, 3))) + webCtx[ci].suf
	p := profiles[pi]
	vnd.Cover("profile-used", true)
	vnd.Concurrently(func() {
		u, err := p.Parse(in)
		if err == nil {
			_ = u.Href(false)
		}
		u2, err2 := p.ParseRef("http://h/p/q?x#y", in)
		if err2 == nil {
			_ = u2.Href(false)
		}
	})
}

func init() {
	verifHarnesses["VerifC14SharedProfiles"] = VerifC14SharedProfiles
}
