//go:build verif

package canonicalizer

// verifHarnesses maps harness names to functions for native replay.
var verifHarnesses = map[string]func(){}
