//go:build verif

package canonicalizer

import (
	"github.com/nlnwa/whatwg-url/internal/vnd"
	"github.com/nlnwa/whatwg-url/url"
)

// The nine kinds of spelling variation of C18; 0 = not applied, otherwise a variant number.
type variation struct {
	schemeCase, hostCase, esc, nested, port, dots, tabnl, space, emptyFrag int
}

var nVariants = [9]int{2, 2, 8, 4, 2, 6, 7, 3, 1}

func (v *variation) set(kind, variant int) {
	switch kind {
	case 0:
		v.schemeCase = variant
	case 1:
		v.hostCase = variant
	case 2:
		v.esc = variant
	case 3:
		v.nested = variant
	case 4:
		v.port = variant
	case 5:
		v.dots = variant
	case 6:
		v.tabnl = variant
	case 7:
		v.space = variant
	case 8:
		v.emptyFrag = variant
	}
}

func upperASCII(s string) string {
	b := []byte(s)
	for i := range b {
		if b[i] >= 'a' && b[i] <= 'z' {
			b[i] -= 32
		}
	}
	return string(b)
}

func mixCase(s string) string {
	b := []byte(s)
	for i := range b {
		if i%2 == 1 && b[i] >= 'a' && b[i] <= 'z' {
			b[i] -= 32
		}
	}
	return string(b)
}

type webBase struct {
	scheme         string
	hc, pc, qc, fc byte // one symbolic character per component
	hasCred        bool
	hasFrag        bool
}

var defaultPorts = []string{"80", "443", "21", "80", "443"}
var webSchemes = []string{"http", "https", "ftp", "ws", "wss"}

// spell writes character c of component comp (0 host, 1 path, 2 query value, 3 fragment) under variation v.
func (v *variation) spell(c byte, comp int) string {
	if v.nested == comp+1 {
		return "%25" + string([]byte{hexDigit(c>>4, true), hexDigit(c&15, false)})
	}
	if v.esc != 0 && (v.esc-1)/2 == comp {
		upper := (v.esc-1)%2 == 0
		return "%" + string([]byte{hexDigit(c>>4, upper), hexDigit(c&15, upper)})
	}
	return string([]byte{c})
}

func (b *webBase) build(si int, v *variation) string {
	sc := b.scheme
	switch v.schemeCase {
	case 1:
		sc = upperASCII(sc)
	case 2:
		sc = mixCase(sc)
	}
	if v.tabnl == 1 {
		sc = sc[:1] + "\t" + sc[1:]
	}
	host := "ab" + v.spell(b.hc, 0) + ".com"
	switch v.hostCase {
	case 1:
		host = "AB" + v.spell(b.hc, 0) + ".COM"
		if v.esc == 0 && v.nested == 0 {
			host = upperASCII("ab"+string([]byte{b.hc})) + ".COM"
		}
	case 2:
		host = "aB" + v.spell(b.hc, 0) + ".cOm"
	}
	if v.tabnl == 2 {
		host = host[:1] + "\n" + host[1:]
	}
	cred := ""
	if b.hasCred {
		cred = "u:p@"
	}
	port := ""
	switch v.port {
	case 1:
		port = ":"
	case 2:
		port = ":" + defaultPorts[si]
	}
	path := "/"
	switch v.dots {
	case 1:
		path += "./"
	case 2:
		path += "x/../"
	case 3:
		path += "%2e/"
	case 4:
		path += "y/%2E%2e/"
	}
	path += "p" + v.spell(b.pc, 1) + "/q/"
	// a dot segment as the LAST segment (directly followed by the query / fragment / end) stands for a trailing slash
	switch v.dots {
	case 5:
		path += "."
	case 6:
		path += "z/%2E."
	}
	if v.tabnl == 3 {
		path = path[:2] + "\r" + path[2:]
	}
	query := "?n=" + v.spell(b.qc, 2)
	if v.tabnl == 4 {
		query += "\n"
	}
	frag := ""
	if b.hasFrag {
		frag = "#f" + v.spell(b.fc, 3)
	} else if v.emptyFrag == 1 {
		frag = "#"
	}
	delim := "://"
	switch v.tabnl {
	case 5: // inside the scheme delimiter
		delim = ":\t//"
	case 6:
		delim = ":/\n/"
	case 7: // between the delimiter and the authority
		delim = "://\r"
	}
	s := sc + delim + cred + host + port + path + query + frag
	switch v.space {
	case 1:
		s = " " + s
	case 2:
		s = s + " \t"
	case 3:
		s = "\n " + s + " "
	}
	return s
}

func symbolicBase() (*webBase, int) {
	si := vnd.Pick(len(webSchemes))
	b := &webBase{scheme: webSchemes[si]}
	b.hc = vnd.StrOver(1, "abzABZ019-")[0]
	b.pc = vnd.StrOver(1, unreserved)[0]
	b.qc = vnd.StrOver(1, unreserved)[0]
	b.fc = vnd.StrOver(1, unreserved)[0]
	b.hasCred = vnd.Pick(2) == 1
	b.hasFrag = vnd.Pick(2) == 1
	return b, si
}

func verifCheckEquivalent(p url.Parser, x, y string) {
	ux, ex := p.Parse(x)
	uy, ey := p.Parse(y)
	if ex != nil {
		return // no canonical form to compare with (not an ordinary web URL for this profile)
	}
	vnd.Observe("canonical", ux.String())
	if ey != nil {
		vnd.Fail("an equivalent spelling is rejected")
	}
	if ux.String() != uy.String() {
		vnd.Observe("variant", uy.String())
		vnd.Fail("two equivalent spellings canonicalize to different strings")
	}
}

// VerifC18EquivWeb: GoogleSafeBrowsing, Semantic and a repeated-decoding profile map equivalent
// spellings to the same string. Quick: all pairs of variation kinds; thorough: all triples, every variant each.
func VerifC18EquivWeb() {
	profs := []url.Parser{GoogleSafeBrowsing, Semantic, New(WithRepeatedPercentDecoding(), WithRemoveFragment()), New(WithRepeatedPercentDecoding())}
	pi := vnd.Pick(len(profs))
	b, si := symbolicBase()
	var v variation
	// quick: every pair of kinds; thorough: every triple of kinds (each with every variant)
	nk := vnd.Param("C18.Kinds", 2, 3)
	last := -1
	for i := 0; i < nk; i++ {
		k := vnd.Pick(9)
		vnd.Assume(k >= last)
		if k != last {
			v.set(k, 1+vnd.Pick(nVariants[k]))
		}
		last = k
	}
	// the empty-fragment variation is asserted only for profiles that remove the fragment (DESIGN §6 C18)
	if pi == 3 {
		v.emptyFrag = 0
	}
	// a nested escape in the HOST is decoded once by the URL parser, leaving a '%' that the standard's
	// host parser rejects; only the lax-host profiles (GoogleSafeBrowsing, Semantic) go on to decode it.
	// For the bare repeated-decoding profiles the host is varied by single escapes only (DESIGN §6 C18).
	if pi >= 2 && v.nested == 1 {
		v.nested = 0
	}
	var none variation
	x, y := b.build(si, &none), b.build(si, &v)
	vnd.Observe("x", x)
	vnd.Observe("y", y)
	vnd.Cover("variation-applied", x != y)
	verifCheckEquivalent(profs[pi], x, y)
}

// VerifC18EquivSpec: for every profile, the differences the URL Standard itself normalises (case of
// scheme and host, default port, dot segments, tabs/newlines, surrounding whitespace) never change the result.
func VerifC18EquivSpec() {
	var p url.Parser
	switch vnd.Pick(6) {
	case 0:
		p = WhatWg
	case 1:
		p = WhatWgSortQuery
	case 2:
		p = GoogleSafeBrowsing
	case 3:
		p = Semantic
	case 4:
		p = New(WithRemoveUserInfo(), WithRemovePort())
	case 5:
		p = composedProfile()
	}
	b, si := symbolicBase()
	var v variation
	specKinds := []int{0, 1, 4, 5, 6, 7}
	nk := vnd.Param("C18.SpecKinds", 2, 2)
	last := -1
	for i := 0; i < nk; i++ {
		j := vnd.Pick(len(specKinds))
		vnd.Assume(j >= last)
		if j != last {
			v.set(specKinds[j], 1+vnd.Pick(nVariants[specKinds[j]]))
		}
		last = j
	}
	if v.port == 1 {
		// ':' with an empty port is normalised by the standard as well
	}
	// encoded dot segments are part of the standard's normalisation too (%2e)
	var none variation
	x, y := b.build(si, &none), b.build(si, &v)
	vnd.Observe("x", x)
	vnd.Observe("y", y)
	verifCheckEquivalent(p, x, y)
}

// VerifC18EquivQueryPairs: two query parameters whose names are one symbolic unreserved letter each;
// one name is re-spelled with a single or nested escape. Sorting profiles with repeated decoding must
// give the same string (the order must not depend on the spelling).
func VerifC18EquivQueryPairs() {
	profs := []url.Parser{Semantic, GoogleSafeBrowsing, New(WithSortQuery(SortKeys), WithRepeatedPercentDecoding()), New(WithSortQuery(SortParameter), WithRepeatedPercentDecoding(), WithRemoveFragment())}
	p := profs[vnd.Pick(len(profs))]
	n1 := vnd.StrOver(1, "abcxyzABCXYZ019")[0]
	n2 := vnd.StrOver(1, "abcxyzABCXYZ019")[0]
	spellName := func(c byte, how int) string {
		h := string([]byte{hexDigit(c>>4, how%2 == 0), hexDigit(c&15, how%2 == 0)})
		switch how / 2 {
		case 0:
			return "%" + h
		case 1:
			return "%25" + h
		}
		return "%2525" + h
	}
	x := "http://ab.com/p?" + string([]byte{n1}) + "k=1&" + string([]byte{n2}) + "k=2"
	var y string
	how := vnd.Pick(6)
	if vnd.Pick(2) == 0 {
		y = "http://ab.com/p?" + spellName(n1, how) + "k=1&" + string([]byte{n2}) + "k=2"
	} else {
		y = "http://ab.com/p?" + string([]byte{n1}) + "k=1&" + spellName(n2, how) + "k=2"
	}
	vnd.Observe("x", x)
	vnd.Observe("y", y)
	verifCheckEquivalent(p, x, y)
}

func init() {
	verifHarnesses["VerifC18EquivQueryPairs"] = VerifC18EquivQueryPairs
	verifHarnesses["VerifC18EquivWeb"] = VerifC18EquivWeb
	verifHarnesses["VerifC18EquivSpec"] = VerifC18EquivSpec
}
