//go:build verif

package url

import (
	"github.com/nlnwa/whatwg-url/internal/vnd"
	model "github.com/nlnwa/whatwg-url/internal/whatwgmodel"
)

// snap is the observable state the standard defines for a URL: failure flag,
// serialization and the nine API getters.
type snap struct {
	fail                                                                         bool
	href, protocol, username, password, host, hostname, port, pathname, search, hash string
}

func snapImpl(u *Url, err error) snap {
	if err != nil || u == nil {
		return snap{fail: true}
	}
	return snap{
		href: u.Href(false), protocol: u.Protocol(), username: u.Username(), password: u.Password(),
		host: u.Host(), hostname: u.Hostname(), port: u.Port(), pathname: u.Pathname(),
		search: u.Search(), hash: u.Hash(),
	}
}

func snapModel(mu *model.URL, ok bool) snap {
	if !ok || mu == nil {
		return snap{fail: true}
	}
	return snap{
		href: mu.Href(false), protocol: mu.Protocol(), username: mu.GetUsername(), password: mu.GetPassword(),
		host: mu.GetHost(), hostname: mu.Hostname(), port: mu.GetPort(), pathname: mu.Pathname(),
		search: mu.Search(), hash: mu.Hash(),
	}
}

// verifCheckSnap returns "" when the two snapshots agree, else the first differing field.
func verifCheckSnap(a, b snap) string {
	if a.fail != b.fail {
		return "failure"
	}
	if a.fail {
		return ""
	}
	if a.href != b.href {
		return "href"
	}
	if a.protocol != b.protocol {
		return "protocol"
	}
	if a.username != b.username {
		return "username"
	}
	if a.password != b.password {
		return "password"
	}
	if a.host != b.host {
		return "host"
	}
	if a.hostname != b.hostname {
		return "hostname"
	}
	if a.port != b.port {
		return "port"
	}
	if a.pathname != b.pathname {
		return "pathname"
	}
	if a.search != b.search {
		return "search"
	}
	if a.hash != b.hash {
		return "hash"
	}
	return ""
}

func observeSnap(prefix string, s snap) {
	if s.fail {
		vnd.Observe(prefix+"href", "<failure>")
		return
	}
	vnd.Observe(prefix+"href", s.href)
	vnd.Observe(prefix+"host", s.host)
	vnd.Observe(prefix+"pathname", s.pathname)
}

type ctx struct{ pre, suf string }

// ctxAbs: absolute-URL contexts (prefix ▸ window ▸ suffix), DESIGN.md Appendix C.
var ctxAbs = []ctx{
	{"", ""}, {"a:", ""}, {"a:/", ""}, {"a://", ""}, {"a://", "/p"}, {"a://h", ""}, {"a://h:", ""}, {"a://u", "@h"},
	{"http:", ""}, {"http:/", ""}, {"http://", ""}, {"http://", "/"}, {"http://h", ""}, {"http://h:", ""}, {"http://h:8", ""},
	{"http://u:p", "@h/"}, {"http://u@", ""}, {"http://h/", ""}, {"http://h/a/", "/b"}, {"http://h/?", ""}, {"http://h/#", ""},
	{"https://h:44", "/"}, {"ws://h", ""}, {"file:", ""}, {"file:/", ""}, {"file://", ""}, {"file://", "/p"}, {"file:///", ""},
	{"file:///C:/", ""}, {"http://[", "]/"}, {"a://[", "]/"},
}

// bases: DESIGN.md Appendix C.
var bases = []string{
	"http://h/p/q?x#y", "http://u:p@h:8/a/b/", "https://h", "ws://h/p", "file:///C:/d/e", "file://h/d", "file:///",
	"a://h/p/q", "a://h", "a:/p/q", "a:/.//p", "a:b", "a:b ?q#f", "a:b  #f", "https://:s@h:0/p?q#f",
}

// refCtx: reference shapes for resolution against the concrete bases.
var refCtx = []ctx{
	{"", ""}, {"/", ""}, {"//", ""}, {"?", ""}, {"#", ""}, {"../", ""}, {"http:", ""}, {"file:", ""}, {"C|", ""}, {"\\", ""},
}

// refs: concrete references used with symbolic bases.
var refs = []string{
	"", "x", "./x", "../x", "/x", "//x", "//x:9/", "\\x", "?q", "#f", "C|/x", "/C|/x", "http:x", "http:/x", "file:x", "a:x", "..", "%2e%2E/x",
}

// ---- known-finding classes (input predicates) ----------------------------------

// hasTabNLSplice: removing tab/newline bytes changes the decoded code points, i.e.
// an ASCII tab/LF/CR sits inside what would otherwise be... (class of the byte-level
// removal defect): some tab/newline byte is adjacent to a non-ASCII byte.
func hasTabNLNearNonASCII(s string) bool {
	for i := 0; i < len(s); i++ {
		if s[i] == 0x09 || s[i] == 0x0A || s[i] == 0x0D {
			if (i > 0 && s[i-1] >= 0x80) || (i+1 < len(s) && s[i+1] >= 0x80) {
				return true
			}
		}
	}
	return false
}

// hasSign: the text contains '+' or '-' (class of the signed-IPv4-part defect is narrowed
// further in the host harnesses; here the broad input class is enough to attribute).
func hasSignByte(s string) bool {
	for i := 0; i < len(s); i++ {
		if s[i] == '+' || s[i] == '-' {
			return true
		}
	}
	return false
}

// bracketCount: number of '[' and ']' bytes.
func bracketCount(s string) (int, int) {
	o, c := 0, 0
	for i := 0; i < len(s); i++ {
		if s[i] == '[' {
			o++
		} else if s[i] == ']' {
			c++
		}
	}
	return o, c
}

// nonASCIIScalar: one symbolic Unicode scalar value above U+007F - the whole code space (two-, three- and
// four-byte encodings, noncharacters, U+FFFD, fullwidth forms, ...) in one position.
func nonASCIIScalar() string {
	r := rune(vnd.U32())
	vnd.Assume(r >= 0x80 && ((r <= 0xD7FF) || (r >= 0xE000 && r <= 0x10FFFF)))
	return string(r)
}

// mixedWindow: a window of 1..n items, each an arbitrary byte or a symbolic non-ASCII scalar value, at
// least one of them a scalar value (pure byte windows are what vnd.Str gives). n is 1 or 2 (3 in some
// thorough tiers): patterns R | RR BR RB | RRR BRB RBR.
func mixedWindow(n int) string {
	switch n {
	case 1:
		return nonASCIIScalar()
	case 2:
		switch vnd.Pick(3) {
		case 0:
			return nonASCIIScalar() + nonASCIIScalar()
		case 1:
			return vnd.Str(1) + nonASCIIScalar()
		}
		return nonASCIIScalar() + vnd.Str(1)
	}
	switch vnd.Pick(3) {
	case 0:
		return nonASCIIScalar() + nonASCIIScalar() + nonASCIIScalar()
	case 1:
		return vnd.Str(1) + nonASCIIScalar() + vnd.Str(1)
	}
	return nonASCIIScalar() + vnd.Str(1) + nonASCIIScalar()
}
