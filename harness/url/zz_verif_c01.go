//go:build verif

package url

import (
	"github.com/nlnwa/whatwg-url/internal/vnd"
	model "github.com/nlnwa/whatwg-url/internal/whatwgmodel"
)

// attributeParse marks the failing path with the open known-finding classes its input lies in.
func attributeParse(in string) {
	vnd.Known("tabnl-splice", hasTabNLNearNonASCII(in))
	vnd.Known("ipv4-signed-part", hasSignByte(in))
	o, c := bracketCount(in)
	vnd.Known("ipv6-extra-brackets", o > 1 || c > 1)
}

func compareParse(in string, base string, hasBase bool) {
	var u *Url
	var err error
	var mu *model.URL
	var ok bool
	if hasBase {
		b, berr := Parse(base)
		mb, mbok := model.Parse(base, nil)
		if (berr != nil) != !mbok {
			attributeParse(base)
			vnd.Fail("base: acceptance differs from the standard")
		}
		if berr != nil {
			return
		}
		u, err = b.Parse(in)
		mu, ok = model.Parse(in, mb)
	} else {
		u, err = Parse(in)
		mu, ok = model.Parse(in, nil)
	}
	si := snapImpl(u, err)
	sm := snapModel(mu, ok)
	observeSnap("impl.", si)
	vnd.Cover("accepted", !si.fail)
	vnd.Cover("rejected", si.fail)
	if d := verifCheckSnap(si, sm); d != "" {
		attributeParse(in)
		if hasBase {
			attributeParse(base)
		}
		observeSnap("model.", sm)
		vnd.Fail("parse result differs from the standard: " + d)
	}
}

// VerifC01ParseAbs: prefix ▸ window ▸ suffix without a base, against the reference model.
func VerifC01ParseAbs() {
	ci := vnd.Pick(len(ctxAbs))
	k := vnd.Len(vnd.Param("C01.KAbs", 2, 3))
	w := vnd.Str(k)
	compareParse(ctxAbs[ci].pre+w+ctxAbs[ci].suf, "", false)
}

// VerifC01ParseRunes: windows that contain symbolic non-ASCII scalar values (whole code space per position),
// alone or next to an arbitrary byte, in every absolute context and as a reference against every base.
func VerifC01ParseRunes() {
	vnd.Cover("rune-window", true)
	if vnd.Bool() {
		w := mixedWindow(1 + vnd.Pick(vnd.Param("C01.KRunes", 2, 3)))
		ci := vnd.Pick(len(ctxAbs))
		compareParse(ctxAbs[ci].pre+w+ctxAbs[ci].suf, "", false)
		return
	}
	w := mixedWindow(1 + vnd.Pick(vnd.Param("C01.KRunesRel", 1, 2)))
	bi := vnd.Pick(len(bases))
	ri := vnd.Pick(len(refCtx))
	compareParse(refCtx[ri].pre+w+refCtx[ri].suf, bases[bi], true)
}

// VerifC01ParseRel: reference = shape ▸ window against each concrete base.
func VerifC01ParseRel() {
	bi := vnd.Pick(len(bases))
	ri := vnd.Pick(len(refCtx))
	k := vnd.Len(vnd.Param("C01.KRel", 2, 3))
	w := vnd.Str(k)
	compareParse(refCtx[ri].pre+w+refCtx[ri].suf, bases[bi], true)
}

// VerifC01ParseRelSymBase: symbolic base (context + window) with concrete references.
func VerifC01ParseRelSymBase() {
	ci := vnd.Pick(len(ctxAbs))
	ri := vnd.Pick(len(refs))
	k := vnd.Len(vnd.Param("C01.KBase", 1, 2))
	w := vnd.Str(k)
	compareParse(refs[ri], ctxAbs[ci].pre+w+ctxAbs[ci].suf, true)
}

// deep Σ-restricted windows per component (DESIGN §6 C01)
var pathCtxs = []ctx{{"http://h/a/b/", "/c"}, {"a://h/a/b/", ""}, {"file:///C:/a/", "/c"}, {"http://h/", ""}}

// VerifC01ParseAbsDots: dot-segment spellings: window over % 2 e E . in path contexts.
func VerifC01ParseAbsDots() {
	c := pathCtxs[vnd.Pick(len(pathCtxs))]
	w := vnd.StrOver(vnd.Len(vnd.Param("C01.KDots", 6, 7)), "%2eE.")
	compareParse(c.pre+w+c.suf, "", false)
}

// driveCtxs: a drive-letter-shaped segment already in place (first or later segment, file and not file),
// so that the window only has to supply what follows it (the file-only, first-segment-only quirks).
var driveCtxs = []ctx{{"http://h/c:/", ""}, {"http://h/c:", "/x"}, {"a://h/C|/", ""}, {"file:///d/C:/", "x"}, {"file://h/C:", ""}}

// VerifC01ParseAbsPath: path alphabet a . / \ % 2 e | : ? # in path contexts (special, non-special, file).
func VerifC01ParseAbsPath() {
	all := len(pathCtxs) + len(driveCtxs)
	var c ctx
	if ci := vnd.Pick(all); ci < len(pathCtxs) {
		c = pathCtxs[ci]
	} else {
		c = driveCtxs[ci-len(pathCtxs)]
	}
	w := vnd.StrOver(vnd.Len(vnd.Param("C01.KPath", 4, 5)), "a./\\%2e|:?#")
	compareParse(c.pre+w+c.suf, "", false)
}

var authCtxs = []ctx{{"http://", "/p"}, {"a://", "/p"}, {"http://", ""}, {"file://", "/p"}, {"ws:", ""}}

// VerifC01ParseAbsAuth: authority alphabet a : @ / % 4 0 [ ] \\ in authority contexts.
func VerifC01ParseAbsAuth() {
	c := authCtxs[vnd.Pick(len(authCtxs))]
	w := vnd.StrOver(vnd.Len(vnd.Param("C01.KAuth", 4, 5)), "a:@/%40[]\\")
	compareParse(c.pre+w+c.suf, "", false)
}

var fileRefBases = []string{"file:///C:/d/e", "file://h/d", "file:///", "file:///d/C:/x"}

// VerifC01ParseFileRel: file/drive-letter quirks: references over / \\ . C | : a against file bases.
func VerifC01ParseFileRel() {
	b := fileRefBases[vnd.Pick(len(fileRefBases))]
	w := vnd.StrOver(vnd.Len(vnd.Param("C01.KFile", 4, 6)), "/\\.C|:a?")
	compareParse(w, b, true)
}

func init() {
	verifHarnesses["VerifC01ParseRunes"] = VerifC01ParseRunes
	verifHarnesses["VerifC01ParseAbsDots"] = VerifC01ParseAbsDots
	verifHarnesses["VerifC01ParseAbsPath"] = VerifC01ParseAbsPath
	verifHarnesses["VerifC01ParseAbsAuth"] = VerifC01ParseAbsAuth
	verifHarnesses["VerifC01ParseFileRel"] = VerifC01ParseFileRel
	verifHarnesses["VerifC01ParseAbs"] = VerifC01ParseAbs
	verifHarnesses["VerifC01ParseRel"] = VerifC01ParseRel
	verifHarnesses["VerifC01ParseRelSymBase"] = VerifC01ParseRelSymBase
}
