//go:build verif

package url

import (
	"github.com/nlnwa/whatwg-url/internal/vnd"
	model "github.com/nlnwa/whatwg-url/internal/whatwgmodel"
)

// isDottedDecimalIPv4: four dot-separated decimal numbers 0..255 without leading zeros.
func isDottedDecimalIPv4(s string) bool {
	parts := 0
	i := 0
	for {
		// one number
		start := i
		n := 0
		for i < len(s) && s[i] >= '0' && s[i] <= '9' {
			n = n*10 + int(s[i]-'0')
			i++
			if i-start > 3 {
				return false
			}
		}
		if i == start {
			return false
		}
		if i-start > 1 && s[start] == '0' {
			return false
		}
		if n > 255 {
			return false
		}
		parts++
		if i == len(s) {
			break
		}
		if s[i] != '.' {
			return false
		}
		i++
	}
	return parts == 4
}

func specDefaultPort(scheme string) int {
	switch scheme {
	case "ftp":
		return 21
	case "http", "ws":
		return 80
	case "https", "wss":
		return 443
	}
	return 0
}

func specIsSpecial(scheme string) bool {
	switch scheme {
	case "ftp", "file", "http", "https", "ws", "wss":
		return true
	}
	return false
}

func decimalValue(s string) int {
	n := 0
	for i := 0; i < len(s); i++ {
		n = n*10 + int(s[i]-'0')
	}
	return n
}

// schemeTable: a special-scheme table as configured (scheme, default port or "").
type schemeEntry struct{ scheme, port string }

var defaultSchemeTable = []schemeEntry{{"ftp", "21"}, {"file", ""}, {"http", "80"}, {"https", "443"}, {"ws", "80"}, {"wss", "443"}}

// customSchemeTable: gopher added (as the Semantic profile does), ftp removed, http moved to 8080.
var customSchemeTable = []schemeEntry{{"file", ""}, {"http", "8080"}, {"https", "443"}, {"ws", "80"}, {"wss", "443"}, {"gopher", "70"}}

func tableLookup(t []schemeEntry, scheme string) (string, bool) {
	for _, e := range t {
		if e.scheme == scheme {
			return e.port, true
		}
	}
	return "", false
}

func verifCheckDerived(u *Url) { verifCheckDerivedT(u, defaultSchemeTable) }

// verifCheckDerivedT: the derived accessors agree with the primary components
// (special-ness and default ports as configured in table t).
func verifCheckDerivedT(u *Url, t []schemeEntry) {
	hn := u.Hostname()
	vnd.Observe("hostname", hn)
	if u.IsIPv6() != (len(hn) > 0 && hn[0] == '[') {
		vnd.Fail("IsIPv6 disagrees with the hostname")
	}
	dp, special := tableLookup(t, u.Scheme())
	if u.IsSpecialScheme() != special {
		vnd.Fail("IsSpecialScheme disagrees with the scheme")
	}
	if u.IsIPv4() != (special && isDottedDecimalIPv4(hn)) {
		vnd.Fail("IsIPv4 disagrees with the hostname")
	}
	port := u.Port()
	wantPort := 0
	if dp != "" {
		wantPort = decimalValue(dp)
	}
	if port != "" {
		wantPort = decimalValue(port)
	}
	if u.DecodedPort() != wantPort {
		vnd.Fail("DecodedPort disagrees with Port / the scheme's default")
	}
	if u.Scheme()+":" != u.Protocol() {
		vnd.Fail("Scheme and Protocol differ by more than the delimiter")
	}
	if q := u.Query(); (q == "" && u.Search() != "") || (q != "" && u.Search() != "?"+q) {
		vnd.Fail("Query and Search differ by more than the delimiter")
	}
	if f := u.Fragment(); (f == "" && u.Hash() != "") || (f != "" && u.Hash() != "#"+f) {
		vnd.Fail("Fragment and Hash differ by more than the delimiter")
	}
	pn := u.Pathname()
	if len(pn) > 0 && pn[0] == '/' && u.OpaquePath() {
		vnd.Fail("OpaquePath is true but the path starts with '/'")
	}
	if len(pn) > 0 && pn[0] != '/' && !u.OpaquePath() {
		vnd.Fail("OpaquePath is false but the path does not start with '/'")
	}
	if u.OpaquePath() && u.Host() != "" {
		vnd.Fail("opaque path together with a host")
	}
}

// hostCtx: host-position contexts where address literals occur.
var hostCtx = []ctx{
	{"http://", "/"}, {"http://1.", "/"}, {"http://1.2.3.", "/"}, {"http://0x", "/"}, {"http://[::", "]/"}, {"http://[", "]:8/"},
	{"a://", "/"}, {"file://", "/p"}, {"http://h:", "/"}, {"https://h:44", "/"}, {"ws://h:", ""},
}

// VerifC19Parse: after parsing (general contexts and host/port contexts).
func VerifC19Parse() {
	var in string
	if vnd.Pick(2) == 0 {
		ci := vnd.Pick(len(ctxAbs))
		in = ctxAbs[ci].pre + vnd.Str(vnd.Len(vnd.Param("C19.KAbs", 2, 3))) + ctxAbs[ci].suf
	} else {
		ci := vnd.Pick(len(hostCtx))
		in = hostCtx[ci].pre + vnd.StrOver(vnd.Len(vnd.Param("C19.KHost", 3, 4)), "0123456789.xXaAfF:[]g-") + hostCtx[ci].suf
	}
	u, err := Parse(in)
	if err != nil {
		return
	}
	vnd.Cover("ipv4", u.IsIPv4())
	vnd.Cover("ipv6", u.IsIPv6())
	vnd.Cover("explicit-port", u.Port() != "")
	verifCheckDerived(u)
	verifCheckDerived(u.Clone())
}

// addrBases: bases whose host is an address or which carry a port.
var addrBases = []string{"http://1.2.3.4/p", "http://[::1]:8/p", "http://h:0/p", "https://h:80/", "ws://u@1.2.3.4:81/a/b", "file://1.2.3.4/d", "a://1.2.3.4:0/p", "a://[::1]/p"}

// VerifC19Resolve: after resolution against bases with address hosts and ports.
func VerifC19Resolve() {
	var base string
	if vnd.Pick(2) == 0 {
		base = addrBases[vnd.Pick(len(addrBases))]
	} else {
		base = bases[vnd.Pick(len(bases))]
	}
	ri := vnd.Pick(len(refCtx))
	ref := refCtx[ri].pre + vnd.Str(vnd.Len(vnd.Param("C19.KRel", 1, 2))) + refCtx[ri].suf
	u, err := ParseRef(base, ref)
	if err != nil {
		return
	}
	verifCheckDerived(u)
	verifCheckDerived(u.Clone())
}

var addrStarts = []string{"http://1.2.3.4/", "http://[::1]:8/", "http://h:0/", "https://h:80/x", "a://1.2.3.4:0/p", "file://1.2.3.4/d", "ws://h"}

// VerifC19Ops: after setter histories (host/port/protocol setters matter most).
func VerifC19Ops() {
	var start string
	if vnd.Pick(2) == 0 {
		start = addrStarts[vnd.Pick(len(addrStarts))]
	} else {
		start = startURLs[vnd.Pick(vnd.Param("C19.Starts", 8, 19))]
	}
	u, err := Parse(start)
	if err != nil {
		return
	}
	depth := 1 + vnd.Pick(2)
	k := vnd.Param("C19.KOps", 1, 2)
	history(u, depth, k)
	verifCheckDerived(u)
	verifCheckDerived(u.Clone())
}

// VerifC19HostSetters: host/hostname/port setters with address-shaped values.
func VerifC19HostSetters() {
	start := addrStarts[vnd.Pick(len(addrStarts))]
	u, err := Parse(start)
	if err != nil {
		return
	}
	op := 3 + vnd.Pick(3) // host, hostname, port
	arg := vnd.StrOver(vnd.Len(vnd.Param("C19.KSet", 3, 4)), "0123456789.x:[]ag")
	applySetter(u, opSetterNames[op], arg)
	verifCheckDerived(u)
}

// VerifC19CustomSchemes: a parser with a configured special-scheme table (gopher:70 added,
// ftp removed, http on 8080): parse / resolve / port and protocol setters.
func VerifC19CustomSchemes() {
	m := map[string]string{}
	for _, e := range customSchemeTable {
		m[e.scheme] = e.port
	}
	p := NewParser(WithSpecialSchemes(m))
	schemes := []string{"gopher", "ftp", "http", "https", "a"}
	sc := schemes[vnd.Pick(len(schemes))]
	tails := []string{"h/", "h:70/", "h:8080/x", "h:21", "h:0/", "1.2.3.4:80/"}
	u, err := p.Parse(sc + "://" + tails[vnd.Pick(len(tails))])
	if err != nil {
		return
	}
	verifCheckDerivedT(u, customSchemeTable)
	switch vnd.Pick(4) {
	case 0:
	case 1:
		u.SetPort(vnd.StrOver(vnd.Len(4), "0781"))
	case 2:
		u.SetProtocol(schemes[vnd.Pick(len(schemes))])
	case 3:
		r, rerr := u.Parse("/y")
		if rerr == nil {
			u = r
		}
	}
	verifCheckDerivedT(u, customSchemeTable)
	verifCheckDerivedT(u.Clone(), customSchemeTable)
}

// VerifC19Addresses: address-literal hosts by value. IPv6: pieces 0-4 all 0 or all ffff, piece 5 0 or ffff, pieces
// 6 and 7 each 0, ffff or any four-hex-digit value (symbolic; covers the IPv4-mapped ::ffff:0:0/96, IPv4-compatible,
// all-ones, unspecified and loopback ranges), spelled with the standard's serializer or with a
// dotted-decimal tail; IPv4: parts from 0, 7, 255. Special and non-special scheme; after parse,
// clone, resolution and a hostname setter carrying the same literal.
func VerifC19Addresses() {
	var host string
	if vnd.Pick(4) != 0 {
		var a [8]uint16
		if vnd.Pick(2) == 1 {
			a[0], a[1], a[2], a[3], a[4] = 0xffff, 0xffff, 0xffff, 0xffff, 0xffff
		}
		if vnd.Pick(2) == 1 {
			a[5] = 0xffff
		}
		anySym := false
		for i := 6; i < 8; i++ {
			switch vnd.Pick(3) {
			case 1:
				a[i] = 0xffff
			case 2:
				if anySym {
					a[i] = 0x1a2b
				} else {
					v := vnd.U16()
					vnd.Assume(v >= 0x1000) // four hex digits, any value
					a[i] = v
					anySym = true
				}
			}
		}
		host = "[" + model.SerializeIPv6(a) + "]"
		if !anySym && vnd.Pick(2) == 1 {
			// the same address with its last 32 bits in dotted-decimal form
			head := "::"
			switch {
			case a[0] == 0 && a[5] != 0:
				head = "::ffff:"
			case a[0] != 0 && a[5] == 0:
				head = "ffff:ffff:ffff:ffff:ffff:0:"
			case a[0] != 0 && a[5] != 0:
				head = "ffff:ffff:ffff:ffff:ffff:ffff:"
			}
			host = "[" + head + decimalOf(int(a[6]>>8)) + "." + decimalOf(int(a[6]&0xff)) + "." + decimalOf(int(a[7]>>8)) + "." + decimalOf(int(a[7]&0xff)) + "]"
		}
	} else {
		parts := []string{"0", "7", "255"}
		host = parts[vnd.Pick(3)] + "." + parts[vnd.Pick(3)] + "." + parts[vnd.Pick(3)] + "." + parts[vnd.Pick(3)]
	}
	schemes := []string{"http", "a", "file"}
	sc := schemes[vnd.Pick(len(schemes))]
	u, err := Parse(sc + "://" + host + "/p")
	if err != nil {
		vnd.Fail("an address literal in canonical spelling is rejected")
		return
	}
	vnd.Cover("ipv4", u.IsIPv4())
	vnd.Cover("ipv6", u.IsIPv6())
	verifCheckDerived(u)
	verifCheckDerived(u.Clone())
	if r, rerr := u.Parse("x?y"); rerr == nil {
		verifCheckDerived(r)
	}
	v, verr := Parse(sc + "://h:8/q")
	if verr == nil {
		v.SetHostname(host)
		verifCheckDerived(v)
	}
}

func decimalOf(n int) string {
	if n == 0 {
		return "0"
	}
	s := ""
	for n > 0 {
		s = string(rune('0'+n%10)) + s
		n /= 10
	}
	return s
}

func init() {
	verifHarnesses["VerifC19Addresses"] = VerifC19Addresses
	verifHarnesses["VerifC19CustomSchemes"] = VerifC19CustomSchemes
	verifHarnesses["VerifC19Parse"] = VerifC19Parse
	verifHarnesses["VerifC19Resolve"] = VerifC19Resolve
	verifHarnesses["VerifC19Ops"] = VerifC19Ops
	verifHarnesses["VerifC19HostSetters"] = VerifC19HostSetters
}
