//go:build verif

package url

import "github.com/nlnwa/whatwg-url/internal/vnd"

// isDottedDecimalIPv4: four dot-separated decimal numbers 0..255 without leading zeros.
func isDottedDecimalIPv4(s string) bool {
	parts := 0
	i := 0
	for {
		// one number
		start := i
		n := 0
		for i < len(s) && s[i] >= '0' && s[i] <= '9' {
			n = n*10 + int(s[i]-'0')
			i++
			if i-start > 3 {
				return false
			}
		}
		if i == start {
			return false
		}
		if i-start > 1 && s[start] == '0' {
			return false
		}
		if n > 255 {
			return false
		}
		parts++
		if i == len(s) {
			break
		}
		if s[i] != '.' {
			return false
		}
		i++
	}
	return parts == 4
}

func specDefaultPort(scheme string) int {
	switch scheme {
	case "ftp":
		return 21
	case "http", "ws":
		return 80
	case "https", "wss":
		return 443
	}
	return 0
}

func specIsSpecial(scheme string) bool {
	switch scheme {
	case "ftp", "file", "http", "https", "ws", "wss":
		return true
	}
	return false
}

func decimalValue(s string) int {
	n := 0
	for i := 0; i < len(s); i++ {
		n = n*10 + int(s[i]-'0')
	}
	return n
}

// schemeTable: a special-scheme table as configured (scheme, default port or "").
type schemeEntry struct{ scheme, port string }

var defaultSchemeTable = []schemeEntry{{"ftp", "21"}, {"file", ""}, {"http", "80"}, {"https", "443"}, {"ws", "80"}, {"wss", "443"}}

// customSchemeTable: gopher added (as the Semantic profile does), ftp removed, http moved to 8080.
var customSchemeTable = []schemeEntry{{"file", ""}, {"http", "8080"}, {"https", "443"}, {"ws", "80"}, {"wss", "443"}, {"gopher", "70"}}

func tableLookup(t []schemeEntry, scheme string) (string, bool) {
	for _, e := range t {
		if e.scheme == scheme {
			return e.port, true
		}
	}
	return "", false
}

func verifCheckDerived(u *Url) { verifCheckDerivedT(u, defaultSchemeTable) }

// verifCheckDerivedT: the derived accessors agree with the primary components
// (special-ness and default ports as configured in table t).
func verifCheckDerivedT(u *Url, t []schemeEntry) {
	hn := u.Hostname()
	vnd.Observe("hostname", hn)
	if u.IsIPv6() != (len(hn) > 0 && hn[0] == '[') {
		vnd.Fail("IsIPv6 disagrees with the hostname")
	}
	dp, special := tableLookup(t, u.Scheme())
	if u.IsSpecialScheme() != special {
		vnd.Fail("IsSpecialScheme disagrees with the scheme")
	}
	if u.IsIPv4() != (special && isDottedDecimalIPv4(hn)) {
		vnd.Fail("IsIPv4 disagrees with the hostname")
	}
	port := u.Port()
	wantPort := 0
	if dp != "" {
		wantPort = decimalValue(dp)
	}
	if port != "" {
		wantPort = decimalValue(port)
	}
	if u.DecodedPort() != wantPort {
		vnd.Fail("DecodedPort disagrees with Port / the scheme's default")
	}
	if u.Scheme()+":" != u.Protocol() {
		vnd.Fail("Scheme and Protocol differ by more than the delimiter")
	}
	if q := u.Query(); (q == "" && u.Search() != "") || (q != "" && u.Search() != "?"+q) {
		vnd.Fail("Query and Search differ by more than the delimiter")
	}
	if f := u.Fragment(); (f == "" && u.Hash() != "") || (f != "" && u.Hash() != "#"+f) {
		vnd.Fail("Fragment and Hash differ by more than the delimiter")
	}
	pn := u.Pathname()
	if len(pn) > 0 && pn[0] == '/' && u.OpaquePath() {
		vnd.Fail("OpaquePath is true but the path starts with '/'")
	}
	if len(pn) > 0 && pn[0] != '/' && !u.OpaquePath() {
		vnd.Fail("OpaquePath is false but the path does not start with '/'")
	}
	if u.OpaquePath() && u.Host() != "" {
		vnd.Fail("opaque path together with a host")
	}
}

// hostCtx: host-position contexts where address literals occur.
var hostCtx = []ctx{
	{"http://", "/"}, {"http://1.", "/"}, {"http://1.2.3.", "/"}, {"http://0x", "/"}, {"http://[::", "]/"}, {"http://[", "]:8/"},
	{"a://", "/"}, {"file://", "/p"}, {"http://h:", "/"}, {"https://h:44", "/"}, {"ws://h:", ""},
}

// VerifC19Parse: after parsing (general contexts and host/port contexts).
func VerifC19Parse() {
	var in string
	if vnd.Pick(2) == 0 {
		ci := vnd.Pick(len(ctxAbs))
		in = ctxAbs[ci].pre + vnd.Str(vnd.Len(vnd.Param("C19.KAbs", 2, 3))) + ctxAbs[ci].suf
	} else {
		ci := vnd.Pick(len(hostCtx))
		in = hostCtx[ci].pre + vnd.StrOver(vnd.Len(vnd.Param("C19.KHost", 3, 4)), "0123456789.xXaAfF:[]g-") + hostCtx[ci].suf
	}
	u, err := Parse(in)
	if err != nil {
		return
	}
	vnd.Cover("ipv4", u.IsIPv4())
	vnd.Cover("ipv6", u.IsIPv6())
	vnd.Cover("explicit-port", u.Port() != "")
	verifCheckDerived(u)
	verifCheckDerived(u.Clone())
}

// addrBases: bases whose host is an address or which carry a port.
var addrBases = []string{"http://1.2.3.4/p", "http://[::1]:8/p", "http://h:0/p", "https://h:80/", "ws://u@1.2.3.4:81/a/b", "file://1.2.3.4/d", "a://1.2.3.4:0/p", "a://[::1]/p"}

// VerifC19Resolve: after resolution against bases with address hosts and ports.
func VerifC19Resolve() {
	var base string
	if vnd.Pick(2) == 0 {
		base = addrBases[vnd.Pick(len(addrBases))]
	} else {
		base = bases[vnd.Pick(len(bases))]
	}
	ri := vnd.Pick(len(refCtx))
	ref := refCtx[ri].pre + vnd.Str(vnd.Len(vnd.Param("C19.KRel", 1, 2))) + refCtx[ri].suf
	u, err := ParseRef(base, ref)
	if err != nil {
		return
	}
	verifCheckDerived(u)
	verifCheckDerived(u.Clone())
}

var addrStarts = []string{"http://1.2.3.4/", "http://[::1]:8/", "http://h:0/", "https://h:80/x", "a://1.2.3.4:0/p", "file://1.2.3.4/d", "ws://h"}

// VerifC19Ops: after setter histories (host/port/protocol setters matter most).
func VerifC19Ops() {
	var start string
	if vnd.Pick(2) == 0 {
		start = addrStarts[vnd.Pick(len(addrStarts))]
	} else {
		start = startURLs[vnd.Pick(vnd.Param("C19.Starts", 8, 19))]
	}
	u, err := Parse(start)
	if err != nil {
		return
	}
	depth := 1 + vnd.Pick(2)
	k := vnd.Param("C19.KOps", 1, 2)
	history(u, depth, k)
	verifCheckDerived(u)
	verifCheckDerived(u.Clone())
}

// VerifC19HostSetters: host/hostname/port setters with address-shaped values.
func VerifC19HostSetters() {
	start := addrStarts[vnd.Pick(len(addrStarts))]
	u, err := Parse(start)
	if err != nil {
		return
	}
	op := 3 + vnd.Pick(3) // host, hostname, port
	arg := vnd.StrOver(vnd.Len(vnd.Param("C19.KSet", 3, 4)), "0123456789.x:[]ag")
	applySetter(u, opSetterNames[op], arg)
	verifCheckDerived(u)
}

// VerifC19CustomSchemes: a parser with a configured special-scheme table (gopher:70 added,
// ftp removed, http on 8080): parse / resolve / port and protocol setters.
func VerifC19CustomSchemes() {
	m := map[string]string{}
	for _, e := range customSchemeTable {
		m[e.scheme] = e.port
	}
	p := NewParser(WithSpecialSchemes(m))
	schemes := []string{"gopher", "ftp", "http", "https", "a"}
	sc := schemes[vnd.Pick(len(schemes))]
	tails := []string{"h/", "h:70/", "h:8080/x", "h:21", "h:0/", "1.2.3.4:80/"}
	u, err := p.Parse(sc + "://" + tails[vnd.Pick(len(tails))])
	if err != nil {
		return
	}
	verifCheckDerivedT(u, customSchemeTable)
	switch vnd.Pick(4) {
	case 0:
	case 1:
		u.SetPort(vnd.StrOver(vnd.Len(4), "0781"))
	case 2:
		u.SetProtocol(schemes[vnd.Pick(len(schemes))])
	case 3:
		r, rerr := u.Parse("/y")
		if rerr == nil {
			u = r
		}
	}
	verifCheckDerivedT(u, customSchemeTable)
	verifCheckDerivedT(u.Clone(), customSchemeTable)
}

func init() {
	verifHarnesses["VerifC19CustomSchemes"] = VerifC19CustomSchemes
	verifHarnesses["VerifC19Parse"] = VerifC19Parse
	verifHarnesses["VerifC19Resolve"] = VerifC19Resolve
	verifHarnesses["VerifC19Ops"] = VerifC19Ops
	verifHarnesses["VerifC19HostSetters"] = VerifC19HostSetters
}
