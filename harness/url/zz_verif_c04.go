//go:build verif

package url

import "github.com/nlnwa/whatwg-url/internal/vnd"

func isLowerAlpha(b byte) bool { return b >= 'a' && b <= 'z' }
func isSchemeTail(b byte) bool {
	return isLowerAlpha(b) || (b >= '0' && b <= '9') || b == '+' || b == '-' || b == '.'
}

func forbiddenHostByte(b byte) bool {
	switch b {
	case 0x00, 0x09, 0x0A, 0x0D, 0x20, '#', '/', ':', '<', '>', '?', '@', '[', '\\', ']', '^', '|':
		return true
	}
	return false
}

func forbiddenDomainByte(b byte) bool {
	return forbiddenHostByte(b) || b <= 0x1F || b == '%' || b == 0x7F
}

// verifCheckInv: the structural invariants of a URL record and the coherence of the getters
// (property C04), stated over the public getters plus the record's null/empty distinctions.
func verifCheckInv(u *Url) { verifCheckInvT(u, defaultSchemeTable) }

// verifCheckInvT: the invariants with special-ness and default ports as configured in table t.
func verifCheckInvT(u *Url, t []schemeEntry) {
	if v := verifCheckInvViolation(u, t); v != "" {
		vnd.Fail(v)
	}
}

// verifCheckInvViolation returns "" when u satisfies every clause of the invariant, else the first violated clause.
func verifCheckInvViolation(u *Url, t []schemeEntry) string {
	sc := u.Scheme()
	if len(sc) == 0 || !isLowerAlpha(sc[0]) {
		return "scheme does not start with a lowercase ASCII letter"
	}
	for i := 1; i < len(sc); i++ {
		if !isSchemeTail(sc[i]) {
			return "scheme contains a character outside alnum + - . (lowercase)"
		}
	}
	dport, special := tableLookup(t, sc)
	hasHost := u.host != nil
	opaque := u.OpaquePath()
	pn := u.Pathname()
	if special {
		if !hasHost {
			return "special scheme without a host"
		}
		if sc != "file" && u.Hostname() == "" {
			return "special non-file scheme with an empty host"
		}
		if opaque || len(pn) == 0 || pn[0] != '/' {
			return "special scheme without a path starting with '/'"
		}
	}
	if opaque && hasHost {
		return "opaque path together with a host"
	}
	if u.Username() != "" || u.Password() != "" || u.Port() != "" {
		if u.Hostname() == "" {
			return "credentials or port with an empty or null host"
		}
		if sc == "file" {
			return "credentials or port on a file URL"
		}
	}
	if p := u.Port(); p != "" {
		if len(p) > 5 || (len(p) > 1 && p[0] == '0') {
			return "port is not a canonical decimal"
		}
		for i := 0; i < len(p); i++ {
			if p[i] < '0' || p[i] > '9' {
				return "port is not decimal"
			}
		}
		v := decimalValue(p)
		if v > 65535 {
			return "port above 65535"
		}
		if special && dport != "" && decimalValue(dport) == v {
			return "the scheme's default port is serialized"
		}
	}
	// components contain no code point their percent-encode set excludes
	for _, s := range []string{u.Username(), u.Password()} {
		for i := 0; i < len(s); i++ {
			if specUserinfoSet(rune(s[i])) {
				return "userinfo contains a code point of the userinfo percent-encode set"
			}
		}
	}
	hn := u.Hostname()
	if len(hn) > 0 && hn[0] != '[' {
		for i := 0; i < len(hn); i++ {
			if special && forbiddenDomainByte(hn[i]) || !special && forbiddenHostByte(hn[i]) || hn[i] > 0x7E {
				return "host contains a forbidden host/domain code point"
			}
		}
	}
	for i := 0; i < len(pn); i++ {
		if opaque && specC0Set(rune(pn[i])) || !opaque && specPathSet(rune(pn[i])) {
			return "path contains a code point of its percent-encode set"
		}
	}
	q := u.Query()
	for i := 0; i < len(q); i++ {
		if special && specSpecialQuerySet(rune(q[i])) || !special && specQuerySet(rune(q[i])) {
			return "query contains a code point of its percent-encode set"
		}
	}
	f := u.Fragment()
	for i := 0; i < len(f); i++ {
		if specFragmentSet(rune(f[i])) {
			return "fragment contains a code point of the fragment percent-encode set"
		}
	}
	// serialization: printable ASCII; a space only inside an opaque path
	h := u.Href(false)
	vnd.Observe("href", h)
	spaces := 0
	for i := 0; i < len(h); i++ {
		if h[i] < 0x20 || h[i] > 0x7E {
			return "serialization contains a byte outside printable ASCII"
		}
		if h[i] == 0x20 {
			spaces++
		}
	}
	pnSpaces := 0
	for i := 0; i < len(pn); i++ {
		if pn[i] == 0x20 {
			pnSpaces++
		}
	}
	if spaces != pnSpaces || (spaces > 0 && !opaque) {
		return "serialization contains a space outside an opaque path"
	}
	// composition identities
	e := u.Protocol()
	if hasHost {
		e += "//"
		if u.Username() != "" || u.Password() != "" {
			e += u.Username()
			if u.Password() != "" {
				e += ":" + u.Password()
			}
			e += "@"
		}
		e += u.Host()
	} else if !opaque && len(pn) > 1 && pn[0] == '/' && pn[1] == '/' {
		e += "/."
	}
	e += pn
	if len(h) < len(e) || h[:len(e)] != e {
		return "Href is not protocol + authority + pathname ..."
	}
	rest := h[len(e):]
	s, hs := u.Search(), u.Hash()
	// modulo a bare '?' / '#': an empty-but-present query/fragment is serialized by Href but
	// rendered as "" by the search/hash getters, as the standard defines them
	okRest := rest == s+hs || (s == "" && rest == "?"+hs) || (hs == "" && rest == s+"#") || (s == "" && hs == "" && rest == "?#")
	if !okRest {
		return "Href is not ... + search + hash"
	}
	want := u.Hostname()
	if u.Port() != "" {
		want += ":" + u.Port()
	}
	if u.Host() != want {
		return "Host is not Hostname[:Port]"
	}
	h2 := u.Href(true)
	if u.fragment == nil {
		if h2 != h {
			return "Href(true) differs although there is no fragment"
		}
	} else if h2+"#"+*u.fragment != h {
		return "Href(true) is not Href(false) without the fragment"
	}
	return ""
}

// invHoldsViolation is a textual copy of verifCheckInvViolation under a name that does not make its
// branches solver obligations: it is used to ASSUME the invariant of a symbolic pre-state (InvStep).
func invHoldsViolation(u *Url, t []schemeEntry) string {
	sc := u.Scheme()
	if len(sc) == 0 || !isLowerAlpha(sc[0]) {
		return "scheme does not start with a lowercase ASCII letter"
	}
	for i := 1; i < len(sc); i++ {
		if !isSchemeTail(sc[i]) {
			return "scheme contains a character outside alnum + - . (lowercase)"
		}
	}
	dport, special := tableLookup(t, sc)
	hasHost := u.host != nil
	opaque := u.OpaquePath()
	pn := u.Pathname()
	if special {
		if !hasHost {
			return "special scheme without a host"
		}
		if sc != "file" && u.Hostname() == "" {
			return "special non-file scheme with an empty host"
		}
		if opaque || len(pn) == 0 || pn[0] != '/' {
			return "special scheme without a path starting with '/'"
		}
	}
	if opaque && hasHost {
		return "opaque path together with a host"
	}
	if u.Username() != "" || u.Password() != "" || u.Port() != "" {
		if u.Hostname() == "" {
			return "credentials or port with an empty or null host"
		}
		if sc == "file" {
			return "credentials or port on a file URL"
		}
	}
	if p := u.Port(); p != "" {
		if len(p) > 5 || (len(p) > 1 && p[0] == '0') {
			return "port is not a canonical decimal"
		}
		for i := 0; i < len(p); i++ {
			if p[i] < '0' || p[i] > '9' {
				return "port is not decimal"
			}
		}
		v := decimalValue(p)
		if v > 65535 {
			return "port above 65535"
		}
		if special && dport != "" && decimalValue(dport) == v {
			return "the scheme's default port is serialized"
		}
	}
	// components contain no code point their percent-encode set excludes
	for _, s := range []string{u.Username(), u.Password()} {
		for i := 0; i < len(s); i++ {
			if specUserinfoSet(rune(s[i])) {
				return "userinfo contains a code point of the userinfo percent-encode set"
			}
		}
	}
	hn := u.Hostname()
	if len(hn) > 0 && hn[0] != '[' {
		for i := 0; i < len(hn); i++ {
			if special && forbiddenDomainByte(hn[i]) || !special && forbiddenHostByte(hn[i]) || hn[i] > 0x7E {
				return "host contains a forbidden host/domain code point"
			}
		}
	}
	for i := 0; i < len(pn); i++ {
		if opaque && specC0Set(rune(pn[i])) || !opaque && specPathSet(rune(pn[i])) {
			return "path contains a code point of its percent-encode set"
		}
	}
	q := u.Query()
	for i := 0; i < len(q); i++ {
		if special && specSpecialQuerySet(rune(q[i])) || !special && specQuerySet(rune(q[i])) {
			return "query contains a code point of its percent-encode set"
		}
	}
	f := u.Fragment()
	for i := 0; i < len(f); i++ {
		if specFragmentSet(rune(f[i])) {
			return "fragment contains a code point of the fragment percent-encode set"
		}
	}
	// serialization: printable ASCII; a space only inside an opaque path
	h := u.Href(false)
	vnd.Observe("href", h)
	spaces := 0
	for i := 0; i < len(h); i++ {
		if h[i] < 0x20 || h[i] > 0x7E {
			return "serialization contains a byte outside printable ASCII"
		}
		if h[i] == 0x20 {
			spaces++
		}
	}
	pnSpaces := 0
	for i := 0; i < len(pn); i++ {
		if pn[i] == 0x20 {
			pnSpaces++
		}
	}
	if spaces != pnSpaces || (spaces > 0 && !opaque) {
		return "serialization contains a space outside an opaque path"
	}
	// composition identities
	e := u.Protocol()
	if hasHost {
		e += "//"
		if u.Username() != "" || u.Password() != "" {
			e += u.Username()
			if u.Password() != "" {
				e += ":" + u.Password()
			}
			e += "@"
		}
		e += u.Host()
	} else if !opaque && len(pn) > 1 && pn[0] == '/' && pn[1] == '/' {
		e += "/."
	}
	e += pn
	if len(h) < len(e) || h[:len(e)] != e {
		return "Href is not protocol + authority + pathname ..."
	}
	rest := h[len(e):]
	s, hs := u.Search(), u.Hash()
	// modulo a bare '?' / '#': an empty-but-present query/fragment is serialized by Href but
	// rendered as "" by the search/hash getters, as the standard defines them
	okRest := rest == s+hs || (s == "" && rest == "?"+hs) || (hs == "" && rest == s+"#") || (s == "" && hs == "" && rest == "?#")
	if !okRest {
		return "Href is not ... + search + hash"
	}
	want := u.Hostname()
	if u.Port() != "" {
		want += ":" + u.Port()
	}
	if u.Host() != want {
		return "Host is not Hostname[:Port]"
	}
	h2 := u.Href(true)
	if u.fragment == nil {
		if h2 != h {
			return "Href(true) differs although there is no fragment"
		}
	} else if h2+"#"+*u.fragment != h {
		return "Href(true) is not Href(false) without the fragment"
	}
	return ""
}

// VerifC04InvParse: invariants after parsing (absolute contexts) and after resolution.
func VerifC04InvParse() {
	if vnd.Pick(2) == 0 {
		ci := vnd.Pick(len(ctxAbs))
		u, err := Parse(ctxAbs[ci].pre + vnd.Str(vnd.Len(vnd.Param("C04.KAbs", 2, 3))) + ctxAbs[ci].suf)
		if err == nil {
			vnd.Cover("parsed", true)
			verifCheckInv(u)
		}
		return
	}
	bi := vnd.Pick(len(bases))
	ri := vnd.Pick(len(refCtx))
	u, err := ParseRef(bases[bi], refCtx[ri].pre+vnd.Str(vnd.Len(vnd.Param("C04.KRel", 1, 2)))+refCtx[ri].suf)
	if err == nil {
		verifCheckInv(u)
	}
}

// invOps: invariants after every step of a history of setter and resolve calls.
func invOps(depth, k, nstarts int) {
	u, err := Parse(startURLs[vnd.Pick(nstarts)])
	if err != nil {
		return
	}
	for i := 0; i < depth; i++ {
		op := vnd.Pick(10) // nine setters + resolve
		var val string
		if i == depth-1 {
			val = vnd.Str(vnd.Len(k))
		} else if op < 9 {
			vals := setterValues[op]
			val = vals[vnd.Pick(len(vals))]
		} else {
			val = refs[vnd.Pick(len(refs))]
		}
		u = applyOp(u, op, val)
		verifCheckInv(u)
	}
}

// VerifC04InvLists: two steps, both from the concrete value/reference lists (which toggle every
// guard: port 0, default ports, file, credentials, empty host ...), on every start URL.
func VerifC04InvLists() {
	u, err := Parse(startURLs[vnd.Pick(len(startURLs))])
	if err != nil {
		return
	}
	for i := 0; i < 2; i++ {
		op := vnd.Pick(10)
		var val string
		if op < 9 {
			vals := setterValues[op]
			val = vals[vnd.Pick(len(vals))]
		} else {
			val = refs[vnd.Pick(len(refs))]
		}
		u = applyOp(u, op, val)
		verifCheckInv(u)
	}
}

// VerifC04InvCustomSchemes: a parser with a configured special-scheme table (gopher:70 added, ftp
// removed, http on 8080): the invariants (default-port elision, special => host ...) follow the configured table.
func VerifC04InvCustomSchemes() {
	m := map[string]string{}
	for _, e := range customSchemeTable {
		m[e.scheme] = e.port
	}
	p := NewParser(WithSpecialSchemes(m))
	schemes := []string{"gopher", "ftp", "http", "https", "a"}
	tails := []string{"h/", "h:70/", "h:8080/x", "h:21", "h:0/", "u@h:80/"}
	u, err := p.Parse(schemes[vnd.Pick(len(schemes))] + "://" + tails[vnd.Pick(len(tails))])
	if err != nil {
		return
	}
	verifCheckInvT(u, customSchemeTable)
	for i := 0; i < 2; i++ {
		switch vnd.Pick(5) {
		case 0:
			u.SetPort([]string{"70", "0070", "8080", "80", "0", "21", "7" + vnd.StrOver(1, "0189")}[vnd.Pick(7)])
		case 1:
			u.SetProtocol(schemes[vnd.Pick(len(schemes))])
		case 2:
			u.SetHost([]string{"x:70", "x:0070", "x:8080", "x", ""}[vnd.Pick(5)])
		case 3:
			r, rerr := u.Parse([]string{"//y:70/z", "/y", "gopher://z:70", "http://z:8080/"}[vnd.Pick(4)])
			if rerr == nil {
				u = r
			}
		case 4:
			u.SetPort("")
		}
		verifCheckInvT(u, customSchemeTable)
	}
}

// symbolicRecord builds a URL record directly (not through the parser): one of ten concrete background
// records of all shapes, in which exactly ONE component is then replaced by a symbolic variant (arbitrary
// bytes; a scheme out of six); the invariant is assumed afterwards. (The full cross product of symbolic
// components - the first version of this harness - is 10^4 shapes x byte classes and never finished.)
func symbolicRecord() *Url {
	u := defaultParser.NewUrl()
	str := func(s string) *string { return &s }
	// background: scheme, username, password, host, port, opaque?, segments/opaque text, query, fragment
	switch vnd.Pick(10) {
	case 0:
		u.scheme, u.username, u.password, u.host, u.port = "http", "u", "p", str("h"), str("8")
		u.path.addSegment("a")
		u.path.addSegment("b")
		u.query, u.fragment = str("q"), str("f")
	case 1:
		u.scheme, u.host = "https", str("h")
		u.path.addSegment("")
	case 2:
		u.scheme, u.host = "file", str("")
		u.path.addSegment("C:")
		u.path.addSegment("d")
	case 3:
		u.scheme, u.host = "file", str("h")
		u.path.addSegment("d")
		u.query = str("")
	case 4:
		u.scheme, u.username, u.host, u.port = "a", "u", str("h"), str("8")
		u.path.addSegment("p")
		u.fragment = str("")
	case 5:
		u.scheme = "a"
		u.path.setOpaque("b ")
		u.query, u.fragment = str("q"), str("f")
	case 6:
		u.scheme = "a"
		u.path.setOpaque("b  ")
		u.fragment = str("f")
	case 7:
		u.scheme = "a"
		u.path.addSegment("")
		u.path.addSegment("")
		u.path.addSegment("p")
	case 8:
		u.scheme, u.host = "a", str("")
	case 9:
		u.scheme, u.host, u.port = "ws", str("1.2.3.4"), str("65535")
		u.path.addSegment("p")
	}
	// the one symbolic component
	switch vnd.Pick(9) {
	case 0:
		u.scheme = []string{"http", "https", "ws", "file", "a", "ftp"}[vnd.Pick(6)]
	case 1:
		u.username = vnd.Str(vnd.Len(1))
		u.password = vnd.Str(vnd.Len(1))
	case 2:
		switch vnd.Pick(4) {
		case 0:
			u.host = nil
		case 1:
			u.host = str("h" + vnd.Str(1))
		case 2:
			u.host = str(vnd.Str(vnd.Len(1)))
		case 3:
			u.host = str("[::1]")
		}
	case 3:
		if vnd.Bool() {
			u.port = nil
		} else {
			u.port = str(vnd.StrOver(vnd.Len(2), "0189"))
		}
	case 4:
		u.path = &path{}
		u.path.setOpaque(vnd.Str(vnd.Len(2)))
	case 5:
		u.path = &path{}
		n := vnd.Pick(3)
		for i := 0; i < n; i++ {
			u.path.addSegment(vnd.Str(vnd.Len(1)))
		}
	case 6:
		u.path.addSegment(vnd.Str(vnd.Len(2)))
	case 7:
		if vnd.Bool() {
			u.query = nil
		} else {
			u.query = str(vnd.Str(vnd.Len(1)))
		}
	case 8:
		if vnd.Bool() {
			u.fragment = nil
		} else {
			u.fragment = str(vnd.Str(vnd.Len(1)))
		}
	}
	return u
}

// VerifC04InvStep: one inductive step. From ANY record of the small shapes above that satisfies the
// invariant, one operation (nine setters or a resolution) with a window argument preserves it. Together
// with InvParse this extends the invariant to histories of any length over records of that size. A
// counterexample is reported only if its pre-state is reachable through the public API (it equals the
// parse of its own serialization, and the violation reproduces from there); otherwise the pre-state is
// counted as unconfirmed (the invariant is then not inductive for it - detection power lost, no alarm).
func VerifC04InvStep() {
	pre := symbolicRecord()
	vnd.Assume(invHoldsViolation(pre, defaultSchemeTable) == "")
	vnd.Cover("inductive-pre-state", true)
	href := pre.Href(false)
	op := vnd.Pick(10)
	arg := vnd.Str(vnd.Len(vnd.Param("C04.KStep", 1, 2)))
	post := applyOp(pre, op, arg)
	v := verifCheckInvViolation(post, defaultSchemeTable)
	if v == "" {
		return
	}
	// confirm through the public API
	r, err := Parse(href)
	if err != nil || r.Href(false) != href {
		vnd.Cover("unconfirmed-inductive", true)
		return
	}
	r = applyOp(r, op, arg)
	if w := verifCheckInvViolation(r, defaultSchemeTable); w != "" {
		vnd.Observe("pre", href)
		vnd.Fail("inductive step, confirmed from the parse of the pre-state: " + w)
	}
	vnd.Cover("unconfirmed-inductive", true)
}

func VerifC04InvOps1() { invOps(1, vnd.Param("C04.KOps1", 2, 3), len(startURLs)) }
func VerifC04InvOps2() { invOps(2, vnd.Param("C04.KOps2", 1, 2), vnd.Param("C04.Starts2", 8, 8)) }
func VerifC04InvOps3() { invOps(3, vnd.Param("C04.KOps3", 0, 0), vnd.Param("C04.Starts3", 4, 4)) }

func init() {
	verifHarnesses["VerifC04InvParse"] = VerifC04InvParse
	verifHarnesses["VerifC04InvOps1"] = VerifC04InvOps1
	verifHarnesses["VerifC04InvStep"] = VerifC04InvStep
	verifHarnesses["VerifC04InvCustomSchemes"] = VerifC04InvCustomSchemes
	verifHarnesses["VerifC04InvLists"] = VerifC04InvLists
	verifHarnesses["VerifC04InvOps2"] = VerifC04InvOps2
	verifHarnesses["VerifC04InvOps3"] = VerifC04InvOps3
}
