//go:build verif

package url

import "github.com/nlnwa/whatwg-url/internal/vnd"

// touchReadOnly: the getters that read a URL value.
func touchReadOnly(u *Url) {
	_ = u.Href(false)
	_ = u.Href(true)
	_ = u.Protocol()
	_ = u.Scheme()
	_ = u.Username()
	_ = u.Password()
	_ = u.Host()
	_ = u.Hostname()
	_ = u.Port()
	_ = u.DecodedPort()
	_ = u.Pathname()
	_ = u.OpaquePath()
	_ = u.Search()
	_ = u.Query()
	_ = u.Hash()
	_ = u.Fragment()
	_ = u.IsIPv4()
	_ = u.IsIPv6()
	_ = u.IsSpecialScheme()
	_ = u.String()
}

// VerifC14SharedBase: a base URL value shared between goroutines is only read by resolution
// and getters: no store hits an object that existed before the calls (the base and everything
// reachable from it, the parser, the package-level tables).
func VerifC14SharedBase() {
	var baseStr, ref string
	if vnd.Pick(2) == 0 {
		// the base shapes x reference shapes with a window
		baseStr = bases[vnd.Pick(len(bases))]
		ri := vnd.Pick(len(refCtx))
		ref = refCtx[ri].pre + vnd.Str(vnd.Len(vnd.Param("C14.KRef", 2, 3))) + refCtx[ri].suf
	} else {
		// a symbolic base x the concrete references
		ci := vnd.Pick(len(ctxAbs))
		baseStr = ctxAbs[ci].pre + vnd.Str(vnd.Len(vnd.Param("C14.KBase", 1, 2))) + ctxAbs[ci].suf
		ref = refs[vnd.Pick(len(refs))]
	}
	b, err := Parse(baseStr)
	if err != nil {
		return
	}
	// a base whose search parameters were looked at earlier (sequentially) is still only read afterwards
	if vnd.Pick(2) == 1 {
		_ = b.SearchParams().String()
	}
	vnd.Cover("base-parsed", true)
	vnd.Concurrently(func() {
		r, rerr := b.Parse(ref)
		touchReadOnly(b)
		if rerr == nil {
			touchReadOnly(r)
			_ = r.SearchParams().String() // the result is private to the caller
		}
	})
}

// errBases: bases that carry 0..9 recorded validation errors when parsed by a reporting parser (a space or a
// backslash each): slices with and without spare capacity behind the base.
var errBases = []string{"http://h/p", "http://h/a b", "http://h/a b c", "http://h/a b c d", "http://h\\a b c d", "http://h/a b c d e f", "http://h/a b c d e f g h i j", "a:b c d e#f g"}

// VerifC14SharedBaseConfigured: the same for a base that came from a configured parser (all ten options
// symbolic), in particular a reporting parser whose URL values carry validation errors: resolution against the
// shared base, also through Parser.ParseRef, stores nothing into it - not even behind the end of a slice.
func VerifC14SharedBaseConfigured() {
	p := symbolicParser()
	baseStr := errBases[vnd.Pick(len(errBases))]
	b, err := p.Parse(baseStr)
	if err != nil {
		return
	}
	ri := vnd.Pick(len(refCtx))
	ref := refCtx[ri].pre + vnd.StrOver(vnd.Len(vnd.Param("C14.KCfgRef", 2, 3)), "a \\%?#/") + refCtx[ri].suf
	vnd.Cover("configured-base-parsed", true)
	vnd.Concurrently(func() {
		r, rerr := b.Parse(ref)
		touchReadOnly(b)
		_ = b.ValidationErrors()
		if rerr == nil {
			touchReadOnly(r)
			_ = r.ValidationErrors()
		}
		r2, rerr2 := p.ParseRef(baseStr, ref)
		if rerr2 == nil {
			_ = r2.ValidationErrors()
		}
	})
}

// VerifC14SharedParser: the package-level functions and a shared Parser value (any configuration).
func VerifC14SharedParser() {
	p := symbolicParser()
	ci := vnd.Pick(len(ctxAbs))
	in := ctxAbs[ci].pre + vnd.Str(vnd.Len(vnd.Param("C14.KAbs", 2, 2))) + ctxAbs[ci].suf
	which := vnd.Pick(3)
	vnd.Concurrently(func() {
		switch which {
		case 0:
			u, err := Parse(in)
			if err == nil {
				touchReadOnly(u)
			}
		case 1:
			u, err := p.Parse(in)
			if err == nil {
				touchReadOnly(u)
				_ = u.SearchParams().String()
			}
		case 2:
			u, err := p.ParseRef("http://h/p/q?x#y", in)
			if err == nil {
				touchReadOnly(u)
			}
		}
	})
}

// VerifC14HistoryParser: "every call returns exactly what it returns when run alone" for one parser
// value: a call on a parser that already served another call (same host text under another scheme,
// same or another path) returns what a fresh parser of the same configuration returns, including the
// recorded validation errors. (With goroutines the earlier call is "another goroutine got there
// first".) Catches per-parser memoisation keyed by less than what the result depends on.
func VerifC14HistoryParser() {
	hosts := []string{"EXAMPLE.com", "0x7F.1", "h", "[::1]", "a%41b", "1.2.3.4.", "xn--a"}
	schemes := []string{"http", "foo", "https", "file", "a"}
	h := hosts[vnd.Pick(len(hosts))]
	w := vnd.Str(vnd.Len(vnd.Param("C14.KHistParser", 1, 2)))
	inB := schemes[vnd.Pick(len(schemes))] + "://" + h + "/" + w
	inA := schemes[vnd.Pick(len(schemes))] + "://" + h + "/x"
	reporting := vnd.Bool()
	mk := func() Parser {
		if reporting {
			return NewParser(WithReportValidationErrors())
		}
		return NewParser()
	}
	shared := mk()
	if ub, eb := shared.Parse(inB); eb == nil {
		_ = ub.Href(false)
	}
	u1, e1 := shared.Parse(inA)
	u2, e2 := mk().Parse(inA)
	s1, s2 := snapImpl(u1, e1), snapImpl(u2, e2)
	vnd.Cover("history-second-call-succeeds", !s1.fail)
	if d := verifCheckSnap(s2, s1); d != "" {
		observeSnap("alone.", s2)
		observeSnap("after.", s1)
		vnd.Fail("C14: a call returns something else after another call was made on the same parser: " + d + " differs")
	}
	if e1 == nil && e2 == nil && len(u1.ValidationErrors()) != len(u2.ValidationErrors()) {
		vnd.Fail("C14: a call records other validation errors after another call was made on the same parser")
	}
}

func init() {
	verifHarnesses["VerifC14HistoryParser"] = VerifC14HistoryParser
	verifHarnesses["VerifC14SharedBaseConfigured"] = VerifC14SharedBaseConfigured
	verifHarnesses["VerifC14SharedBase"] = VerifC14SharedBase
	verifHarnesses["VerifC14SharedParser"] = VerifC14SharedParser
}
