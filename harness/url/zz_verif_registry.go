//go:build verif

package url

// verifHarnesses maps harness names to functions for native replay.
var verifHarnesses = map[string]func(){}
