//go:build verif

package url

import (
	"github.com/nlnwa/whatwg-url/internal/vnd"
	model "github.com/nlnwa/whatwg-url/internal/whatwgmodel"
)

const sigmaIPv6 = "019afAFg:."

// VerifC08HostIPv6Text: scheme://[W]/ over the IPv6 alphabet, special and non-special, against the standard's parser.
func VerifC08HostIPv6Text() {
	schemes := []string{"http", "a"}
	scheme := schemes[vnd.Pick(len(schemes))]
	w := vnd.StrOver(vnd.Len(vnd.Param("C08.KText", 6, 7)), sigmaIPv6)
	in := scheme + "://[" + w + "]/"
	u, err := Parse(in)
	vnd.Cover("ipv6-accepted", err == nil)
	vnd.Cover("ipv6-rejected", err != nil)
	if err == nil {
		vnd.Cover("ipv6-compressed", len(u.Hostname()) < 2+len(w))
	}
	compareParse(in, "", false)
}

// ipv6Ctxs: longer shapes (7/8 pieces, '::' positions, IPv4 tails) with a short symbolic window.
var ipv6Ctxs = []ctx{
	{"1:2:3:4:5:6:7", ""}, {"1:2:3:4:5:6:", ""}, {"1:2:3:4:5:6", ":8"}, {"", ":2:3:4:5:6:7:8"}, {"1::3:4:5:6:7", ""}, {"::", ":3:4:5:6:7:8"},
	{"1:2:3:4:5:6:1.2.3", ""}, {"1:2:3:4:5:6:", ".2.3.4"}, {"::1.2.", ".4"}, {"1:2:3:4:5::", ".2.3.4"}, {"::ffff:", ".0.0.1"}, {"1:0:0:2:0:0:", ""},
	{"1:0:0:2:3:4:", ":0"}, {"0:0:0:1:2:0:0", ""}, {"1:2:3:4:5:6:7:8", ""}, {"1:2::", ":7:8"}, {"1:2:3:4:5:6:1.2.3.4", ""}, {"::1.2.3.4", ""},
	// the longest texts: 39 characters all-hex, 40..45 with a dotted tail
	{"1111:2222:3333:4444:5555:6666:7777:8", ""}, {"1111:2222:3333:4444:5555:6666:1", ".255.255.255"}, {"abcd:ef01:2345:6789:abcd:ef01:255.255.255.2", ""},
}

// VerifC08HostIPv6Shapes: long address shapes with a window of 0..K symbolic bytes at one position.
func VerifC08HostIPv6Shapes() {
	schemes := []string{"http", "a"}
	scheme := schemes[vnd.Pick(len(schemes))]
	c := ipv6Ctxs[vnd.Pick(len(ipv6Ctxs))]
	w := vnd.StrOver(vnd.Len(vnd.Param("C08.KShape", 3, 5)), sigmaIPv6)
	compareParse(scheme+"://["+c.pre+w+c.suf+"]/", "", false)
}

// ipv4TailCtxs: where a dotted-decimal part of an IPv4-in-IPv6 tail starts (first, middle and last part;
// after '::', after six pieces).
var ipv4TailCtxs = []ctx{
	{"::", ".2.3.4"}, {"::1.", ".3.4"}, {"::1.2.", ".4"}, {"::1.2.3.", ""}, {"1:2:3:4:5:6:1.2.3.", ""}, {"1:2:3:4:5:6:", ".2.3.4"}, {"::ffff:1.", ".3.4"},
}

// ipv4TailPrefixes: concrete leading digits that put the part next to a boundary: 255/256, 2^16, 2^31,
// 2^32, 2^63, 2^64 (and 2^64+255), 2*2^64, 10^19; K symbolic digits follow, so the solver ranges over
// every value within 10^K of the boundary - in particular over every part that a 64-bit (or 32-bit)
// accumulator would wrap into 0..255.
var ipv4TailPrefixes = []string{"", "2", "25", "655", "21474836", "42949672", "429496729", "92233720368547758", "184467440737095516", "184467440737095518",
	"368934881474191032", "100000000000000000", "1000000000000000000"}

// VerifC08IPv4TailDigits: every part of an embedded IPv4 tail is at most 255 whatever its length.
func VerifC08IPv4TailDigits() {
	schemes := []string{"http", "a"}
	scheme := schemes[vnd.Pick(len(schemes))]
	c := ipv4TailCtxs[vnd.Pick(len(ipv4TailCtxs))]
	pre := ipv4TailPrefixes[vnd.Pick(len(ipv4TailPrefixes))]
	w := vnd.StrOver(vnd.Len(vnd.Param("C08.KTail", 2, 3)), decDigits)
	in := scheme + "://[" + c.pre + pre + w + c.suf + "]/"
	_, err := Parse(in)
	vnd.Cover("ipv4-tail-accepted", err == nil)
	vnd.Cover("ipv4-tail-rejected", err != nil)
	compareParse(in, "", false)
}

// ipv6RuneCtxs: positions of a hex digit, a piece separator and an IPv4 digit inside a literal.
var ipv6RuneCtxs = []ctx{{"::", ""}, {"", "::"}, {"1:2:3:4:5:6:7:", ""}, {"1", "::2"}, {"::1", ""}, {"::1.2.3.", ""}, {"::", ".2.3.4"}, {"1:2:3:4:5:6:7", "8"}}

// VerifC08HostIPv6Runes: a symbolic non-ASCII scalar value (whole code space; alone or next to one byte of the
// IPv6 alphabet) at every kind of position inside the brackets: nothing but ASCII hex digits, ':' and '.'
// is ever part of an address, whatever the low bits of the code point look like.
func VerifC08HostIPv6Runes() {
	schemes := []string{"http", "a"}
	scheme := schemes[vnd.Pick(len(schemes))]
	c := ipv6RuneCtxs[vnd.Pick(len(ipv6RuneCtxs))]
	w := nonASCIIScalar()
	switch vnd.Pick(3) {
	case 1:
		w = vnd.StrOver(1, sigmaIPv6) + w
	case 2:
		w = w + vnd.StrOver(1, sigmaIPv6)
	}
	in := scheme + "://[" + c.pre + w + c.suf + "]/"
	_, err := Parse(in)
	vnd.Cover("ipv6-rune-rejected", err != nil)
	if err == nil {
		vnd.Fail("an IPv6 literal containing a non-ASCII code point was accepted")
	}
	compareParse(in, "", false)
}

// VerifC08HostBrackets: every arrangement of brackets around/inside the host.
func VerifC08HostBrackets() {
	schemes := []string{"http", "a", "file"}
	scheme := schemes[vnd.Pick(len(schemes))]
	w := vnd.StrOver(vnd.Len(vnd.Param("C08.KBrackets", 6, 8)), "[]:1a")
	compareParse(scheme+"://"+w+"/", "", false)
}

func symbolicIPv6(freeMagnitude int) IPv6Addr {
	var a IPv6Addr
	for i := 0; i < 8; i++ {
		if vnd.Pick(2) == 0 {
			a[i] = 0
			continue
		}
		v := vnd.U16()
		if freeMagnitude < 0 || i == freeMagnitude {
			vnd.Assume(v != 0)
		} else {
			vnd.Assume(v >= 0x1000) // four hex digits
		}
		a[i] = v
	}
	return a
}

// VerifC08IPv6Serialize: the serializer on symbolic addresses: equals the standard's serializer
// (first longest run of >=2 zero pieces, lowercase, no leading zeros) and parses back to the same value.
// Quick: all 256 zero/non-zero patterns with four-digit non-zero pieces, one piece of free magnitude;
// thorough (C08.AllMagnitudes=1): every piece of free magnitude.
func VerifC08IPv6Serialize() {
	free := vnd.Pick(8)
	if vnd.Param("C08.AllMagnitudes", 0, 0) == 1 {
		free = -1
	}
	a := symbolicIPv6(free)
	got := a.String()
	var ma [8]uint16
	for i := 0; i < 8; i++ {
		ma[i] = a[i]
	}
	want := model.SerializeIPv6(ma)
	vnd.Observe("ipv6", got)
	if got != want {
		vnd.Fail("IPv6 serializer differs from the standard's (first longest zero run, lowercase, no leading zeros)")
	}
}

// VerifC08IPv6RoundTrip: serialize-then-parse is the identity (through the public API and
// through the standard's parser) for all 256 zero/non-zero patterns x three magnitude
// profiles of the non-zero pieces (one hex digit, four hex digits, mixed by position).
func VerifC08IPv6RoundTrip() {
	profile := vnd.Pick(3)
	var a IPv6Addr
	for i := 0; i < 8; i++ {
		if vnd.Pick(2) == 0 {
			continue
		}
		switch profile {
		case 0:
			a[i] = uint16(i + 1)
		case 1:
			a[i] = uint16(0xa0b1 + i*0x0101)
		default:
			a[i] = uint16(1) << uint(2*i)
		}
	}
	got := a.String()
	var ma [8]uint16
	for i := 0; i < 8; i++ {
		ma[i] = a[i]
	}
	if got != model.SerializeIPv6(ma) {
		vnd.Fail("IPv6 serializer differs from the standard's")
	}
	back, ok := model.ParseIPv6([]rune(got))
	if !ok || back != ma {
		vnd.Fail("the standard's parser does not read the serialization back to the same address")
	}
	u, err := Parse("http://[" + got + "]/")
	if err != nil {
		vnd.Fail("the serialized address is rejected by the parser")
	}
	if u.Hostname() != "["+got+"]" {
		vnd.Fail("serialize-then-parse is not the identity")
	}
	nu, nerr := Parse("a://[" + got + "]/")
	if nerr != nil || nu.Hostname() != "["+got+"]" {
		vnd.Fail("serialize-then-parse is not the identity for a non-special URL")
	}
}

func init() {
	verifHarnesses["VerifC08HostIPv6Runes"] = VerifC08HostIPv6Runes
	verifHarnesses["VerifC08IPv4TailDigits"] = VerifC08IPv4TailDigits
	verifHarnesses["VerifC08HostIPv6Text"] = VerifC08HostIPv6Text
	verifHarnesses["VerifC08HostIPv6Shapes"] = VerifC08HostIPv6Shapes
	verifHarnesses["VerifC08HostBrackets"] = VerifC08HostBrackets
	verifHarnesses["VerifC08IPv6Serialize"] = VerifC08IPv6Serialize
	verifHarnesses["VerifC08IPv6RoundTrip"] = VerifC08IPv6RoundTrip
}
