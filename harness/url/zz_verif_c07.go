//go:build verif

package url

import (
	"github.com/nlnwa/whatwg-url/internal/vnd"
	model "github.com/nlnwa/whatwg-url/internal/whatwgmodel"
)

var specialSchemes6 = []string{"http", "https", "ws", "wss", "ftp", "file"}

// asciiHostBytes: every ASCII byte except the authority/host delimiters / \ ? # @ : [ ]
// (those end or restructure the host; they are covered by C01's contexts).
func asciiHostBytes() string {
	b := make([]byte, 0, 128)
	for c := 0; c < 0x80; c++ {
		switch byte(c) {
		case '/', '\\', '?', '#', '@', ':', '[', ']':
			continue
		}
		b = append(b, byte(c))
	}
	return string(b)
}

const sigmaIPv4 = "0178 9afxX.+-g_"

type digitCtx struct{ pre, alphabet string }

// digitCtxs: structured contexts that reach the value boundaries of the parts
// (255/256, 65535/65536, 2^24, 2^32, 2^63, 2^64) with windows restricted to the digits of one radix.
var digitCtxs = []digitCtx{
	{"1.1.1.", "0123456789"}, {"1.1.", "0123456789"}, {"1.", "0123456789"}, {"", "0123456789"},
	{"0x", "0123456789abcdefABCDEF"}, {"1.0x", "0123456789abcdefF"}, {"0", "01234567"}, {"1.1.0", "01234567"},
	{"1.1.1.0x", "0123456789abcdef"}, {"1.", "0123456789."},
}

func verifCheckIPv4Shape(u *Url) {
	// an accepted special URL whose host the standard calls an IPv4 address serializes as four decimal octets
	hn := u.Hostname()
	if model.EndsInANumber(hn) && !isDottedDecimalIPv4(hn) {
		vnd.Fail("host ends in a number but is not serialized as four decimal octets")
	}
}

// VerifC07HostIPv4: scheme://W/ for the six special schemes against the standard's host parser.
func VerifC07HostIPv4() {
	scheme := specialSchemes6[vnd.Pick(len(specialSchemes6))]
	var w string
	switch vnd.Pick(3) {
	case 0:
		w = vnd.StrOver(vnd.Len(vnd.Param("C07.KSigma", 5, 7)), sigmaIPv4)
	case 1:
		w = vnd.StrOver(vnd.Len(vnd.Param("C07.KAscii", 2, 3)), asciiHostBytes())
	case 2:
		dc := digitCtxs[vnd.Pick(len(digitCtxs))]
		n := 1 + vnd.Pick(vnd.Param("C07.KDigits", 11, 22))
		w = dc.pre + vnd.StrOver(n, dc.alphabet)
	}
	in := scheme + "://" + w + "/"
	u, err := Parse(in)
	vnd.Cover("parsed-as-ipv4", err == nil && u.IsIPv4())
	vnd.Cover("rejected", err != nil)
	vnd.Cover("domain", err == nil && !u.IsIPv4())
	compareParse(in, "", false)
	if err == nil {
		verifCheckIPv4Shape(u)
	}
}

// VerifC07HostOpaqueNever: hosts of non-special URLs are never reinterpreted as addresses.
func VerifC07HostOpaqueNever() {
	var w string
	if vnd.Pick(2) == 0 {
		w = vnd.StrOver(vnd.Len(vnd.Param("C07.KSigmaOpaque", 4, 6)), sigmaIPv4)
	} else {
		w = vnd.StrOver(vnd.Len(vnd.Param("C07.KAsciiOpaque", 2, 3)), asciiHostBytes())
	}
	in := "a://" + w + "/"
	u, err := Parse(in)
	compareParse(in, "", false)
	if err == nil {
		if u.IsIPv4() {
			vnd.Fail("a non-special URL reports an IPv4 host")
		}
		// the opaque host is the input, percent-encoded with the C0 control set: for the printable
		// ASCII alphabet of this harness that is the input itself
		allPrintable := true
		for i := 0; i < len(w); i++ {
			if w[i] < 0x20 || w[i] > 0x7E {
				allPrintable = false
			}
		}
		if allPrintable && u.Hostname() != w {
			vnd.Fail("opaque host was reinterpreted")
		}
	}
}

func init() {
	verifHarnesses["VerifC07HostIPv4"] = VerifC07HostIPv4
	verifHarnesses["VerifC07HostOpaqueNever"] = VerifC07HostOpaqueNever
}
