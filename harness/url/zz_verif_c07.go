//go:build verif

package url

import (
	"github.com/nlnwa/whatwg-url/internal/vnd"
	model "github.com/nlnwa/whatwg-url/internal/whatwgmodel"
)

var specialSchemes6 = []string{"http", "https", "ws", "wss", "ftp", "file"}

// asciiHostBytes: every ASCII byte except the authority/host delimiters / \ ? # @ : [ ]
// (those end or restructure the host; they are covered by C01's contexts).
func asciiHostBytes() string {
	b := make([]byte, 0, 128)
	for c := 0; c < 0x80; c++ {
		switch byte(c) {
		case '/', '\\', '?', '#', '@', ':', '[', ']':
			continue
		}
		b = append(b, byte(c))
	}
	return string(b)
}

const sigmaIPv4 = "0178 9afxX.+-g_"

type digitCtx struct{ pre, alphabet string }

const decDigits = "0123456789"
const hexDigits = "0123456789abcdefABCDEF"
const octDigits = "01234567"

// digitCtxs: boundary neighbourhoods. The concrete leading digits put the number next to a
// boundary of the IPv4 parser (2^8, 2^16, 2^24, 2^32 for the last part by position; 255/256
// for the other parts; 2^63 and 2^64 where the number parser overflows); the trailing window
// of K symbolic digits of the radix makes the solver range over every value within base^K of it.
var digitCtxs = []digitCtx{
	// decimal, one part
	{"", decDigits}, {"2", decDigits}, {"25", decDigits}, {"655", decDigits}, {"6553", decDigits}, {"167772", decDigits}, {"1677721", decDigits},
	{"42949672", decDigits}, {"429496729", decDigits}, {"92233720368547758", decDigits}, {"184467440737095516", decDigits},
	// hex, one part
	{"0x", hexDigits}, {"0xf", hexDigits}, {"0xff", hexDigits}, {"0xfff", hexDigits}, {"0xfffff", hexDigits}, {"0xfffffff", hexDigits}, {"0X1000000", hexDigits},
	{"0x7ffffffffffffff", hexDigits}, {"0xfffffffffffffff", hexDigits},
	// octal, one part
	{"0", octDigits}, {"03", octDigits}, {"037", octDigits}, {"0377777777", octDigits}, {"07777777777777777777", octDigits}, {"017777777777777777777", octDigits},
	// by part position: last part limit 256^(5-n), other parts 255
	{"1.", decDigits}, {"1.1677721", decDigits}, {"1.0xfffff", hexDigits}, {"1.1.", decDigits}, {"1.1.655", decDigits}, {"1.1.0xfff", hexDigits},
	{"1.1.1.", decDigits}, {"1.1.1.2", decDigits}, {"1.1.1.0x", hexDigits}, {"1.1.1.03", octDigits}, {"1.1.1.1.", decDigits},
	// a symbolic non-last part
	{"", "0123456789."}, {"25", "0123456789."}, {"0x", "0123456789afF."},
}

// digitSuffixes: what follows the symbolic digits (nothing, a trailing dot, further parts).
// zero-padded parts: a number in the standard's sense however many leading zeros it has (length is not value)
var paddedCtxs = []digitCtx{
	{"000000000000", octDigits}, {"0000000000000000000000000", octDigits}, {"0x00000000000", hexDigits}, {"0x000000000000007f0000", hexDigits},
	{"0X0000000000000000000000", hexDigits}, {"1.2.3.000000000000", octDigits}, {"1.0x0000000000000", hexDigits}, {"0000000000000.0x000000000000.", decDigits},
}

// mappedHosts: hosts that are numbers only after the domain-to-ASCII mapping (fullwidth digits and letters,
// ideographic full stop, soft hyphen), written literally and percent-encoded; concrete, because the mapping
// is the real UTS-46 library's (both in the implementation and in the reference model).
var mappedHosts = []string{"%EF%BC%91.2.3.4", "\uff11.2.3.4", "%EF%BC%90x7f.1", "\uff10\uff58\uff17\uff46.1", "1%E3%80%822.3.4", "1\u30022.3.4", "1%C2%AD0.0x0.0.01",
	"%EF%BC%91%EF%BC%92%EF%BC%93", "1.2.3.%EF%BC%94", "%EF%BC%91.2.3.4.5", "a\uff11.2.3.4", "\uff11.2.3.x", "1.2.3.4\u3002", "\u00df.1", "1.\u00e9"}

// VerifC07HostPadded: zero-padded hex/octal/decimal parts of 13..30 characters x K symbolic digits.
func VerifC07HostPadded() {
	schemes := []string{"http", "file"}
	scheme := schemes[vnd.Pick(len(schemes))]
	dc := paddedCtxs[vnd.Pick(len(paddedCtxs))]
	n := vnd.Len(vnd.Param("C07.KPadded", 2, 3))
	checkSpecialHost(scheme, dc.pre+vnd.StrOver(n, dc.alphabet))
}

// VerifC07HostMapped: the IPv4 decision is taken on the ASCII domain, i.e. after the mapping.
func VerifC07HostMapped() {
	scheme := specialSchemes6[vnd.Pick(len(specialSchemes6))]
	h := mappedHosts[vnd.Pick(len(mappedHosts))]
	vnd.Cover("mapped-host", true)
	checkSpecialHost(scheme, h)
	// and the same text as an opaque host is never an address
	u, err := Parse("a://" + h + "/")
	if err == nil && u.IsIPv4() {
		vnd.Fail("a non-special URL reports an IPv4 host")
	}
	compareParse("a://"+h+"/", "", false)
}

var digitSuffixes = []string{"", ".", ".1", ".1.1.1"}

func verifCheckIPv4Shape(u *Url) {
	// an accepted special URL whose host the standard calls an IPv4 address serializes as four decimal octets
	hn := u.Hostname()
	if model.EndsInANumber(hn) && !isDottedDecimalIPv4(hn) {
		vnd.Fail("host ends in a number but is not serialized as four decimal octets")
	}
}

func checkSpecialHost(scheme, w string) {
	in := scheme + "://" + w + "/"
	u, err := Parse(in)
	vnd.Cover("parsed-as-ipv4", err == nil && u.IsIPv4())
	vnd.Cover("rejected", err != nil)
	vnd.Cover("domain", err == nil && !u.IsIPv4())
	compareParse(in, "", false)
	if err == nil {
		verifCheckIPv4Shape(u)
	}
}

// VerifC07HostIPv4Sigma: scheme://W/ with W over the IPv4 alphabet 0 1 7 8 9 a f x X . + - g _ and space
// (enough for four parts, a fifth part, hex/octal shorthand, signs, a non-last part > 255).
func VerifC07HostIPv4Sigma() {
	schemes := []string{"http", "file"}
	scheme := schemes[vnd.Pick(len(schemes))]
	checkSpecialHost(scheme, vnd.StrOver(vnd.Len(vnd.Param("C07.KSigma", 4, 6)), sigmaIPv4))
}

// VerifC07HostIPv4Ascii: W over every ASCII byte except the host delimiters, all six special schemes.
func VerifC07HostIPv4Ascii() {
	scheme := specialSchemes6[vnd.Pick(len(specialSchemes6))]
	checkSpecialHost(scheme, vnd.StrOver(vnd.Len(vnd.Param("C07.KAscii", 2, 3)), asciiHostBytes()))
}

// VerifC07HostIPv4Digits: boundary neighbourhoods x K symbolic digits x what follows.
func VerifC07HostIPv4Digits() {
	schemes := []string{"http", "file"}
	scheme := schemes[vnd.Pick(len(schemes))]
	dc := digitCtxs[vnd.Pick(len(digitCtxs))]
	n := vnd.Len(vnd.Param("C07.KDigits", 2, 3))
	suf := digitSuffixes[vnd.Pick(len(digitSuffixes))]
	checkSpecialHost(scheme, dc.pre+vnd.StrOver(n, dc.alphabet)+suf)
}

// VerifC07HostOpaqueNever: hosts of non-special URLs are never reinterpreted as addresses.
func VerifC07HostOpaqueNever() {
	var w string
	if vnd.Pick(2) == 0 {
		w = vnd.StrOver(vnd.Len(vnd.Param("C07.KSigmaOpaque", 4, 6)), sigmaIPv4)
	} else {
		w = vnd.StrOver(vnd.Len(vnd.Param("C07.KAsciiOpaque", 2, 3)), asciiHostBytes())
	}
	in := "a://" + w + "/"
	u, err := Parse(in)
	compareParse(in, "", false)
	if err == nil {
		if u.IsIPv4() {
			vnd.Fail("a non-special URL reports an IPv4 host")
		}
		// the opaque host is the input, percent-encoded with the C0 control set: for the printable
		// ASCII alphabet of this harness that is the input itself
		allPrintable := true
		for i := 0; i < len(w); i++ {
			if w[i] < 0x20 || w[i] > 0x7E {
				allPrintable = false
			}
		}
		if allPrintable && u.Hostname() != w {
			vnd.Fail("opaque host was reinterpreted")
		}
	}
}

func init() {
	verifHarnesses["VerifC07HostPadded"] = VerifC07HostPadded
	verifHarnesses["VerifC07HostMapped"] = VerifC07HostMapped
	verifHarnesses["VerifC07HostIPv4Sigma"] = VerifC07HostIPv4Sigma
	verifHarnesses["VerifC07HostIPv4Ascii"] = VerifC07HostIPv4Ascii
	verifHarnesses["VerifC07HostIPv4Digits"] = VerifC07HostIPv4Digits
	verifHarnesses["VerifC07HostOpaqueNever"] = VerifC07HostOpaqueNever
}
