//go:build verif

package url

import (
	"github.com/nlnwa/whatwg-url/internal/vnd"
	model "github.com/nlnwa/whatwg-url/internal/whatwgmodel"
)

// sv: the scalar-value reading of a Go string (invalid UTF-8 bytes count as U+FFFD).
func sv(s string) string { return string([]rune(s)) }

func implPairs(sp *SearchParams) []model.Pair {
	out := make([]model.Pair, 0, len(sp.params))
	for _, nv := range sp.params {
		out = append(out, model.Pair{Name: nv.Name, Value: nv.Value})
	}
	return out
}

// samePairs compares two lists under the scalar-value reading.
func samePairs(a, b []model.Pair) bool {
	if len(a) != len(b) {
		return false
	}
	for i := range a {
		if sv(a[i].Name) != sv(b[i].Name) || sv(a[i].Value) != sv(b[i].Value) {
			return false
		}
	}
	return true
}

// ---- known-finding classes (predicates over the inputs) ----

// hasPctHex: the text contains '%' followed by two hex digits.
func hasPctHex(s string) bool {
	for i := 0; i+2 < len(s); i++ {
		if s[i] == '%' && isHexByte(s[i+1]) && isHexByte(s[i+2]) {
			return true
		}
	}
	return false
}

func isHexByte(b byte) bool {
	return (b >= '0' && b <= '9') || (b >= 'a' && b <= 'f') || (b >= 'A' && b <= 'F')
}

func hasByte(s string, c byte) bool {
	for i := 0; i < len(s); i++ {
		if s[i] == c {
			return true
		}
	}
	return false
}

// classFParse: the query contains %2B / %2b (decoded to '+' and then turned into a space).
func classFParse(q string) bool {
	for i := 0; i+2 < len(q); i++ {
		if q[i] == '%' && q[i+1] == '2' && (q[i+2] == 'B' || q[i+2] == 'b') {
			return true
		}
	}
	return false
}

// classFSer: a name contains & = + or a %HH triplet, or a value contains & + or a %HH triplet
// (the serializer leaves them unescaped).
func classFSer(list []model.Pair) bool {
	for _, p := range list {
		if hasByte(p.Name, '&') || hasByte(p.Name, '=') || hasByte(p.Name, '+') || hasPctHex(p.Name) ||
			hasByte(p.Value, '&') || hasByte(p.Value, '+') || hasPctHex(p.Value) {
			return true
		}
	}
	return false
}

func freshParams() (*Url, *SearchParams) {
	u, _ := Parse("http://h/")
	return u, u.SearchParams()
}

// VerifC11FormParse: initialising from a query follows application/x-www-form-urlencoded parsing.
func VerifC11FormParse() {
	var w string
	if vnd.Pick(2) == 0 {
		w = vnd.Str(vnd.Len(vnd.Param("C11.KParse", 2, 3)))
	} else {
		w = vnd.StrOver(vnd.Len(vnd.Param("C11.KParseSigma", 4, 5)), "a&=+%2B \xc3\xa9\xff")
	}
	u, err := Parse("http://h/?" + w)
	if err != nil {
		return
	}
	q := u.Query()
	got := implPairs(u.SearchParams())
	want := model.FormParse(q)
	vnd.Observe("query", q)
	vnd.Cover("two-pairs", len(want) >= 2)
	if !samePairs(got, want) {
		vnd.Known("form-parse-plus", classFParse(q))
		vnd.Fail("the parameter list is not the application/x-www-form-urlencoded parse of the query")
	}
}

// formTokens: the separators, their escapes in both hex cases, a stray '%', space, a two-byte code point
// and an invalid byte.
var formTokens = []string{"a", "b", "&", "=", "+", " ", "%", "%26", "%3D", "%3d", "%2B", "%2b", "%25", "%20", "%C3%A9", "é", "\xff", "%FF"}

// VerifC11FormParseTokens: queries made of 1..N tokens from formTokens (all combinations): where a
// separator and an escaped separator meet.
func VerifC11FormParseTokens() {
	n := 1 + vnd.Pick(vnd.Param("C11.NTokens", 3, 4))
	w := ""
	for i := 0; i < n; i++ {
		w += formTokens[vnd.Pick(len(formTokens))]
	}
	u, err := Parse("http://h/?" + w)
	if err != nil {
		vnd.Fail("a query made of form tokens is rejected")
		return
	}
	q := u.Query()
	got := implPairs(u.SearchParams())
	want := model.FormParse(q)
	vnd.Observe("query", q)
	vnd.Cover("form-tokens", true)
	if !samePairs(got, want) {
		vnd.Known("form-parse-plus", classFParse(q))
		vnd.Fail("the parameter list is not the application/x-www-form-urlencoded parse of the query")
	}
}

// VerifC11ListSeq: sequences of three list operations (append, delete, set, sort, sort by name+value, a
// read) on a list parsed from a query, names and values over {a, b, empty}: state kept by one
// operation and mis-read by a later one.
func VerifC11ListSeq() {
	starts := []string{"", "b=1&a=2", "a=1&b=2&a=3", "b=&a&b=b"}
	u, _ := Parse("http://h/?" + starts[vnd.Pick(len(starts))])
	sp := u.SearchParams()
	ml := model.FormParse(u.Query())
	depth := vnd.Param("C11.SeqDepth", 3, 4)
	for i := 0; i < depth; i++ {
		op := vnd.Pick(6)
		switch op {
		case 0:
			nm, vl := vnd.StrOver(vnd.Len(1), "ab"), vnd.StrOver(vnd.Len(1), "ab")
			sp.Append(nm, vl)
			ml = model.ListAppend(ml, nm, vl)
		case 1:
			nm := vnd.StrOver(vnd.Len(1), "ab")
			sp.Delete(nm)
			ml = model.ListDelete(ml, nm)
		case 2:
			nm, vl := vnd.StrOver(vnd.Len(1), "abc"), vnd.StrOver(vnd.Len(1), "ab")
			sp.Set(nm, vl)
			ml = model.ListSet(ml, nm, vl)
		case 3:
			sp.Sort()
			ml = model.ListSortStable(ml)
		case 4:
			// the library's own order (name+value): checked against its documented meaning (ordered
			// permutation); the order among ties is adopted from the implementation, not demanded
			sp.SortAbsolute()
			verifCheckSortedAbsolute(ml, implPairs(sp))
			ml = implPairs(sp)
		case 5:
			_ = sp.Has("a")
			_ = sp.GetAll("b")
			_ = sp.String()
		}
		vnd.Cover("list-seq", true)
		if !samePairs(implPairs(sp), ml) {
			vnd.Fail("after a sequence of list operations the list differs from the standard's list semantics")
		}
		if op < 5 && u.Query() != sp.String() {
			vnd.Fail("after a mutating list operation the URL's query is not the serialized list")
		}
	}
}

const listSigma = "ab&=+% 2B"

func symPair(k int) (string, string) {
	return vnd.StrOver(vnd.Len(k), listSigma), vnd.StrOver(vnd.Len(k), listSigma)
}

// VerifC11ListOps: the list operations against the standard's list semantics.
func VerifC11ListOps() {
	_, sp := freshParams()
	var ml []model.Pair
	n := vnd.Len(vnd.Param("C11.NPairs", 2, 2))
	k := vnd.Param("C11.KName", 1, 2)
	for i := 0; i < n; i++ {
		nm, vl := symPair(k)
		sp.Append(nm, vl)
		ml = model.ListAppend(ml, nm, vl)
	}
	depth := vnd.Param("C11.OpsDepth", 1, 1)
	for i := 0; i < depth; i++ {
		switch vnd.Pick(4) {
		case 0:
			nm, vl := symPair(k)
			sp.Append(nm, vl)
			ml = model.ListAppend(ml, nm, vl)
		case 1:
			nm := vnd.StrOver(vnd.Len(k), listSigma)
			sp.Delete(nm)
			ml = model.ListDelete(ml, nm)
		case 2:
			nm, vl := symPair(k)
			sp.Set(nm, vl)
			ml = model.ListSet(ml, nm, vl)
		case 3:
			sp.Sort()
			ml = model.ListSortStable(ml)
		}
		if !samePairs(implPairs(sp), ml) {
			vnd.Fail("a list operation does not have the standard's list semantics")
		}
	}
	q := vnd.StrOver(vnd.Len(k), listSigma)
	mv, mok := model.ListGet(ml, q)
	if sp.Has(q) != mok || sp.Has(q) != model.ListHas(ml, q) {
		vnd.Fail("Has differs from the standard")
	}
	if mok && sp.Get(q) != mv {
		vnd.Fail("Get does not return the first value")
	}
	ga, mga := sp.GetAll(q), model.ListGetAll(ml, q)
	if len(ga) != len(mga) {
		vnd.Fail("GetAll returns a different number of values")
	}
	for i := range ga {
		if ga[i] != mga[i] {
			vnd.Fail("GetAll returns different values")
		}
	}
}

// VerifC11SortRunes: the order of Sort is the standard's "comparison of code units": names made of one or
// two symbolic scalar values (whole code space), so that code points of the upper BMP meet astral ones
// and invalid bytes (which count as U+FFFD) meet valid ones.
func VerifC11SortRunes() {
	_, sp := freshParams()
	var ml []model.Pair
	n := 2 + vnd.Pick(vnd.Param("C11.NSortRunes", 1, 1))
	for i := 0; i < n; i++ {
		var nm string
		switch vnd.Pick(3) {
		case 0:
			nm = nonASCIIScalar()
		case 1:
			nm = nonASCIIScalar() + nonASCIIScalar()
		default:
			nm = vnd.Str(1) + nonASCIIScalar()
		}
		vl := string(rune('1' + i))
		sp.Append(nm, vl)
		ml = model.ListAppend(ml, nm, vl)
	}
	sp.Sort()
	vnd.Cover("sort-runes", true)
	if !samePairs(implPairs(sp), model.ListSortStable(ml)) {
		vnd.Fail("Sort does not order names by comparison of UTF-16 code units (stable)")
	}
}

// VerifC11SortAbsolute: what the documentation fixes: a permutation, non-decreasing in name+value.
func VerifC11SortAbsolute() {
	_, sp := freshParams()
	n := vnd.Len(vnd.Param("C11.NSortAbs", 3, 4))
	var before []model.Pair
	for i := 0; i < n; i++ {
		nm, vl := symPair(1)
		sp.Append(nm, vl)
		before = append(before, model.Pair{Name: nm, Value: vl})
	}
	sp.SortAbsolute()
	verifCheckSortedAbsolute(before, implPairs(sp))
}

// verifCheckSortedAbsolute: what the documentation of SortAbsolute fixes: a permutation of the
// parameters, non-decreasing in name+value. (The order among distinct pairs whose name+value
// concatenations tie is not fixed by anything, so it is not checked.)
func verifCheckSortedAbsolute(before, after []model.Pair) {
	if len(after) != len(before) {
		vnd.Fail("SortAbsolute changed the number of parameters")
	}
	for i := 0; i+1 < len(after); i++ {
		if after[i].Name+after[i].Value > after[i+1].Name+after[i+1].Value {
			vnd.Fail("SortAbsolute result is not ordered by name+value")
		}
	}
	// permutation: every pair occurs equally often before and after
	for _, p := range before {
		cb, ca := 0, 0
		for _, x := range before {
			if x.Name == p.Name && x.Value == p.Value {
				cb++
			}
		}
		for _, x := range after {
			if x.Name == p.Name && x.Value == p.Value {
				ca++
			}
		}
		if cb != ca {
			vnd.Fail("SortAbsolute is not a permutation of the parameters")
		}
	}
}

// VerifC11SortLong: stability of Sort on lists long enough for the library to switch algorithm.
func VerifC11SortLong() {
	_, sp := freshParams()
	var ml []model.Pair
	n := 13 + vnd.Pick(vnd.Param("C11.NLong", 4, 20))
	var bit [7]bool
	for i := range bit {
		bit[i] = vnd.Bool()
	}
	for i := 0; i < n; i++ {
		nm := "b"
		if bit[(i*3)%7] {
			nm = "a"
		}
		vl := string([]byte{'0' + byte(i/10), '0' + byte(i%10)})
		sp.Append(nm, vl)
		ml = model.ListAppend(ml, nm, vl)
	}
	sp.Sort()
	if !samePairs(implPairs(sp), model.ListSortStable(ml)) {
		vnd.Fail("Sort is not a stable sort by name")
	}
}

// VerifC11FormRoundTrip: serializing any list and parsing the result returns the same list.
func VerifC11FormRoundTrip() {
	_, sp := freshParams()
	var ml []model.Pair
	n := vnd.Len(vnd.Param("C11.NRound", 2, 2))
	for i := 0; i < n; i++ {
		var nm, vl string
		if vnd.Pick(2) == 0 {
			nm, vl = vnd.Str(vnd.Len(vnd.Param("C11.KRoundFull", 1, 1))), vnd.Str(vnd.Len(vnd.Param("C11.KRoundFull", 1, 1)))
		} else {
			nm, vl = symPair(vnd.Param("C11.KRoundSigma", 1, 1))
		}
		sp.Append(nm, vl)
		ml = append(ml, model.Pair{Name: nm, Value: vl})
	}
	s := sp.String()
	vnd.Observe("serialized", s)
	v, err := Parse("http://h/?" + s)
	if err != nil {
		vnd.Fail("the serialized parameters do not parse as a query")
	}
	if !samePairs(implPairs(v.SearchParams()), ml) {
		vnd.Known("form-serialize-unescaped", classFSer(ml))
		vnd.Fail("serializing a list and parsing the result does not return the same list")
	}
	// and the standard's parser reads the serialization back to the same list
	if !samePairs(model.FormParse(s), ml) {
		vnd.Known("form-serialize-unescaped", classFSer(ml))
		vnd.Fail("the standard's form parser does not read the serialization back to the same list")
	}
}

// VerifC11FormRoundTripBytes: one pair whose name or value is a window of 0..K arbitrary bytes
// (invalid UTF-8 included) followed by a concrete ASCII tail: the serialization parses back to the
// same list (scalar-value reading), by the implementation and by the standard's parser, and the query
// of the URL is that serialization.
func VerifC11FormRoundTripBytes() {
	u, sp := freshParams()
	k := vnd.Param("C11.KRoundBytes", 2, 3)
	tail := []string{"", "yz", "e-au"}[vnd.Pick(3)]
	nm, vl := "n"+tail, "v"+tail
	if vnd.Bool() {
		nm = vnd.Str(vnd.Len(k)) + tail
	} else {
		vl = vnd.Str(vnd.Len(k)) + tail
	}
	if vnd.Bool() {
		sp.Append(nm, vl)
	} else {
		sp.Set(nm, vl)
	}
	ml := []model.Pair{{Name: nm, Value: vl}}
	s := sp.String()
	vnd.Observe("serialized", s)
	if u.Query() != s {
		vnd.Fail("after a mutating list operation the URL's query is not the serialized list")
	}
	v, err := Parse("http://h/?" + s)
	if err != nil {
		vnd.Fail("the serialized parameters do not parse as a query")
	}
	if !samePairs(implPairs(v.SearchParams()), ml) {
		vnd.Known("form-serialize-unescaped", classFSer(ml))
		vnd.Fail("serializing a list and parsing the result does not return the same list")
	}
	if !samePairs(model.FormParse(s), ml) {
		vnd.Known("form-serialize-unescaped", classFSer(ml))
		vnd.Fail("the standard's form parser does not read the serialization back to the same list")
	}
}

func init() {
	verifHarnesses["VerifC11FormRoundTripBytes"] = VerifC11FormRoundTripBytes
	verifHarnesses["VerifC11FormParseTokens"] = VerifC11FormParseTokens
	verifHarnesses["VerifC11ListSeq"] = VerifC11ListSeq
	verifHarnesses["VerifC11SortRunes"] = VerifC11SortRunes
	verifHarnesses["VerifC11FormParse"] = VerifC11FormParse
	verifHarnesses["VerifC11ListOps"] = VerifC11ListOps
	verifHarnesses["VerifC11SortAbsolute"] = VerifC11SortAbsolute
	verifHarnesses["VerifC11SortLong"] = VerifC11SortLong
	verifHarnesses["VerifC11FormRoundTrip"] = VerifC11FormRoundTrip
}
