//go:build verif

package url

import (
	"github.com/nlnwa/whatwg-url/internal/vnd"
	model "github.com/nlnwa/whatwg-url/internal/whatwgmodel"
)

// verifCheckRoundTrip: parsing the serialization (no base) succeeds and yields the
// identical serialization and components.
func verifCheckRoundTrip(u *Url) {
	h := u.Href(false)
	vnd.Observe("href", h)
	v, err := Parse(h)
	if err != nil {
		vnd.Fail("the serialization of a reachable URL does not parse")
	}
	a, b := snapImpl(u, nil), snapImpl(v, nil)
	if a.href != b.href {
		vnd.Fail("round trip changes href")
	}
	if a.protocol != b.protocol {
		vnd.Fail("round trip changes protocol")
	}
	if a.username != b.username {
		vnd.Fail("round trip changes username")
	}
	if a.password != b.password {
		vnd.Fail("round trip changes password")
	}
	if a.host != b.host {
		vnd.Fail("round trip changes host")
	}
	if a.hostname != b.hostname {
		vnd.Fail("round trip changes hostname")
	}
	if a.port != b.port {
		vnd.Fail("round trip changes port")
	}
	if a.pathname != b.pathname {
		vnd.Fail("round trip changes pathname")
	}
	if a.search != b.search {
		vnd.Fail("round trip changes search")
	}
	if a.hash != b.hash {
		vnd.Fail("round trip changes hash")
	}
}

// VerifC03RoundTripAbs: every successful parse of context ▸ window ▸ suffix round-trips.
func VerifC03RoundTripAbs() {
	ci := vnd.Pick(len(ctxAbs))
	w := vnd.Str(vnd.Len(vnd.Param("C03.KAbs", 2, 3)))
	u, err := Parse(ctxAbs[ci].pre + w + ctxAbs[ci].suf)
	vnd.Cover("accepted", err == nil)
	if err != nil {
		return
	}
	verifCheckRoundTrip(u)
}

// VerifC03RoundTripRel: every successful resolution against the base shapes round-trips.
func VerifC03RoundTripRel() {
	bi := vnd.Pick(len(bases))
	ri := vnd.Pick(len(refCtx))
	w := vnd.Str(vnd.Len(vnd.Param("C03.KRel", 1, 2)))
	u, err := ParseRef(bases[bi], refCtx[ri].pre+w+refCtx[ri].suf)
	if err != nil {
		return
	}
	verifCheckRoundTrip(u)
}

// modelRoundTrips: do the standard's own algorithms round-trip on this state? (The property
// exempts exactly the states where they do not: e.g. the protocol setter switching to file over a
// first path segment `C|`, or over a host `localhost`.)
func modelRoundTrips(mu *model.URL) bool {
	mv, ok := model.Parse(mu.Href(false), nil)
	if !ok {
		return false
	}
	return verifCheckSnap(snapModel(mu, true), snapModel(mv, true)) == ""
}

// roundTripOps: round trip after setter histories; the same history is applied to the reference
// model, and the only exempt states are those in which the standard's own algorithms do not round-trip.
func roundTripOps(depth, k, nstarts int) {
	start := startURLs[vnd.Pick(nstarts)]
	u, err := Parse(start)
	mu, ok := model.Parse(start, nil)
	if err != nil || !ok {
		return
	}
	for i := 0; i < depth; i++ {
		op := vnd.Pick(9)
		var val string
		if i == depth-1 {
			val = vnd.Str(vnd.Len(k))
		} else {
			vals := setterValues[op]
			val = vals[vnd.Pick(len(vals))]
		}
		applySetter(u, opSetterNames[op], val)
		applyModelSetter(mu, op, val)
	}
	if !modelRoundTrips(mu) {
		vnd.Cover("standard-exception-state", true)
		return
	}
	verifCheckRoundTrip(u)
}

// crossPortBases: bases whose explicit port is another special scheme's default, or that carry
// state a later protocol/port/host setter interacts with.
var crossPortBases = []string{"http://h:443/d/p?x#y", "https://h:80/d/", "ws://u@h:21/p", "ftp://h:80/", "a://h:80/p", "http://h:8/d/p"}

// VerifC03RoundTripResolveOps: a URL obtained by resolution (so that fields are copied from a base),
// then two protocol/host/port setter calls from the value lists, then the round trip (exemptions as above).
func VerifC03RoundTripResolveOps() {
	base := crossPortBases[vnd.Pick(len(crossPortBases))]
	ref := refs[vnd.Pick(len(refs))]
	u, err := ParseRef(base, ref)
	mb, mbok := model.Parse(base, nil)
	if err != nil || !mbok {
		return
	}
	mu, ok := model.Parse(ref, mb)
	if !ok {
		return
	}
	ops := []int{0, 3, 5}
	for i := 0; i < 2; i++ {
		op := ops[vnd.Pick(len(ops))]
		vals := setterValues[op]
		val := vals[vnd.Pick(len(vals))]
		applySetter(u, opSetterNames[op], val)
		applyModelSetter(mu, op, val)
	}
	if !modelRoundTrips(mu) {
		return
	}
	verifCheckRoundTrip(u)
}

// VerifC03RoundTripOps1: one setter call with a symbolic window.
func VerifC03RoundTripOps1() { roundTripOps(1, vnd.Param("C03.KOps1", 2, 3), len(startURLs)) }

// VerifC03RoundTripOps2: two setter calls, the first from the value lists, the second symbolic.
func VerifC03RoundTripOps2() { roundTripOps(2, vnd.Param("C03.KOps2", 1, 2), vnd.Param("C03.Starts2", 8, 8)) }

// VerifC03RoundTripOps3: three setter calls (thorough tier).
func VerifC03RoundTripOps3() { roundTripOps(3, vnd.Param("C03.KOps3", 0, 0), vnd.Param("C03.Starts3", 4, 4)) }

func init() {
	verifHarnesses["VerifC03RoundTripAbs"] = VerifC03RoundTripAbs
	verifHarnesses["VerifC03RoundTripRel"] = VerifC03RoundTripRel
	verifHarnesses["VerifC03RoundTripOps1"] = VerifC03RoundTripOps1
	verifHarnesses["VerifC03RoundTripResolveOps"] = VerifC03RoundTripResolveOps
	verifHarnesses["VerifC03RoundTripOps2"] = VerifC03RoundTripOps2
	verifHarnesses["VerifC03RoundTripOps3"] = VerifC03RoundTripOps3
}
