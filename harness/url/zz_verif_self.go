//go:build verif

package url

import "github.com/nlnwa/whatwg-url/internal/vnd"

func observeAll(u *Url) {
	vnd.Observe("href", u.Href(false))
	vnd.Observe("protocol", u.Protocol())
	vnd.Observe("username", u.Username())
	vnd.Observe("password", u.Password())
	vnd.Observe("host", u.Host())
	vnd.Observe("hostname", u.Hostname())
	vnd.Observe("port", u.Port())
	vnd.Observe("pathname", u.Pathname())
	vnd.Observe("search", u.Search())
	vnd.Observe("hash", u.Hash())
}

// VerifSelfParse: one WPT parse vector pushed through the interpreter concretely
// (translator validation: the engine's getters must equal the expected fields).
func VerifSelfParse() {
	base := vnd.Input("base")
	in := vnd.Input("input")
	u, err := ParseRef(base, in)
	if err != nil {
		vnd.Observe("failure", "1")
		return
	}
	vnd.Observe("failure", "0")
	observeAll(u)
}

// VerifSelfSetter: one WPT setter vector.
func VerifSelfSetter() {
	href := vnd.Input("href")
	setter := vnd.Input("setter")
	val := vnd.Input("value")
	u, err := Parse(href)
	if err != nil {
		vnd.Observe("failure", "1")
		return
	}
	vnd.Observe("failure", "0")
	applySetter(u, setter, val)
	observeAll(u)
}

func applySetter(u *Url, setter, val string) {
	switch setter {
	case "protocol":
		u.SetProtocol(val)
	case "username":
		u.SetUsername(val)
	case "password":
		u.SetPassword(val)
	case "host":
		u.SetHost(val)
	case "hostname":
		u.SetHostname(val)
	case "port":
		u.SetPort(val)
	case "pathname":
		u.SetPathname(val)
	case "search":
		u.SetSearch(val)
	case "hash":
		u.SetHash(val)
	}
}

func init() {
	verifHarnesses["VerifSelfParse"] = VerifSelfParse
	verifHarnesses["VerifSelfSetter"] = VerifSelfSetter
}
