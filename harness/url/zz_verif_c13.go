//go:build verif

package url

import "github.com/nlnwa/whatwg-url/internal/vnd"

// stateString: everything observable about a URL: all getters and the search parameters.
func stateString(u *Url) string {
	s := u.Href(false) + "\x00" + u.Href(true) + "\x00" + u.Protocol() + "\x00" + u.Username() + "\x00" + u.Password() + "\x00" +
		u.Host() + "\x00" + u.Hostname() + "\x00" + u.Port() + "\x00" + u.Pathname() + "\x00" + u.Search() + "\x00" + u.Hash() + "\x00"
	if u.OpaquePath() {
		s += "O"
	}
	sp := u.SearchParams()
	s += "\x00" + sp.String()
	for _, nv := range sp.params {
		s += "\x01" + nv.Name + "\x02" + nv.Value
	}
	return s
}

// errString: the validation errors recorded on a URL value (reporting parsers). Whether Clone carries
// them over is not fixed by anything; that an operation on ANOTHER value changes them is a violation.
func errString(u *Url) string {
	s := ""
	for _, e := range u.ValidationErrors() {
		s += "\x03" + e.Error()
	}
	return s
}

// sameBacking: two string slices share their backing array (compared at the last element of the
// full capacity, which every slice of one array has in common).
func sameBackingStrings(a, b []string) bool {
	if cap(a) == 0 || cap(b) == 0 {
		return false
	}
	return &a[:cap(a)][cap(a)-1] == &b[:cap(b)][cap(b)-1]
}

func sameBackingPairs(a, b []*NameValuePair) bool {
	if cap(a) == 0 || cap(b) == 0 {
		return false
	}
	return &a[:cap(a)][cap(a)-1] == &b[:cap(b)][cap(b)-1]
}

// verifCheckDisjoint: structural independence of two URL values: no mutable object (string cells,
// path and its segment array, parameter list, its array and its pairs, the validation-error list) is
// reachable from both, and each parameter list writes through to its own URL. This covers every
// future operation sequence, not only the explored ones. (The parser value is shared by design: it is
// immutable, which is C14's subject.)
func verifCheckDisjoint(a, b *Url, what string) {
	if a == b {
		vnd.Fail(what + ": the same URL value")
	}
	if (a.host != nil && a.host == b.host) || (a.port != nil && a.port == b.port) ||
		(a.query != nil && a.query == b.query) || (a.fragment != nil && a.fragment == b.fragment) {
		vnd.Fail(what + ": a component string cell is shared")
	}
	if a.path != nil && a.path == b.path {
		vnd.Fail(what + ": the path object is shared")
	}
	if a.path != nil && b.path != nil && sameBackingStrings(a.path.p, b.path.p) {
		vnd.Fail(what + ": the path segment array is shared")
	}
	if a.searchParams != nil && a.searchParams == b.searchParams {
		vnd.Fail(what + ": the search-parameter object is shared")
	}
	if a.searchParams != nil && a.searchParams.url != a {
		vnd.Fail(what + ": a parameter list writes through to another URL")
	}
	if b.searchParams != nil && b.searchParams.url != b {
		vnd.Fail(what + ": a parameter list writes through to another URL")
	}
	if a.searchParams != nil && b.searchParams != nil {
		if sameBackingPairs(a.searchParams.params, b.searchParams.params) {
			vnd.Fail(what + ": the parameter array is shared")
		}
		for _, x := range a.searchParams.params {
			for _, y := range b.searchParams.params {
				if x != nil && x == y {
					vnd.Fail(what + ": a name/value pair object is shared")
				}
			}
		}
	}
	if cap(a.validationErrors) > 0 && cap(b.validationErrors) > 0 &&
		&a.validationErrors[:cap(a.validationErrors)][cap(a.validationErrors)-1] == &b.validationErrors[:cap(b.validationErrors)][cap(b.validationErrors)-1] {
		vnd.Fail(what + ": the validation-error list is shared")
	}
}

func verifCheckUnchanged(u *Url, before string, what string) {
	if stateString(u) != before {
		vnd.Fail(what)
	}
}

// prepare: histories that create or empty lazily created state before the operation under test.
func prepare(u *Url, which int) {
	switch which {
	case 0:
	case 1:
		_ = u.SearchParams().String()
	case 2:
		_ = u.SearchParams().String()
		u.SetSearch("")
	case 3:
		u.SetSearch("k=v&k=w")
		_ = u.SearchParams().Get("k")
	case 4:
		u.SetHash("")
		u.SetSearch("")
	}
}

const nPrepare = 5

// aliasOps: the operations that write through pointers a copy could share.
const nAliasOps = 12

func aliasOp(u *Url, which int, arg string) {
	switch which {
	case 0:
		u.SetSearch("")
	case 1:
		u.SetHash("")
	case 2:
		u.SetPathname("/x" + arg)
	case 3:
		u.SetHost("y" + arg)
	case 4:
		u.SetPort("9")
	case 5:
		u.SetUsername("n" + arg)
	case 6:
		u.SearchParams().Append("k"+arg, "v")
	case 7:
		u.SearchParams().Set("k", "w"+arg)
	case 8:
		u.SearchParams().Delete("k")
	case 9:
		u.SearchParams().Sort()
	case 10:
		u.SetSearch("?z=1&k=" + arg)
	case 11:
		u.SetProtocol("https")
	}
}

var aliasRefs = []string{"", "x", "/x", "?q", "#f", "//x", "C|/x", "..", "#"}

// VerifC13BaseUnchanged: resolving never changes the base; afterwards two operations (the
// first on the result, the second on the result or on the base) never change the other value.
func VerifC13BaseUnchanged() {
	b, err := Parse(bases[vnd.Pick(len(bases))])
	if err != nil {
		return
	}
	prepare(b, vnd.Pick(3))
	ref := aliasRefs[vnd.Pick(len(aliasRefs))]
	before := stateString(b)
	r, rerr := b.Parse(ref)
	verifCheckUnchanged(b, before, "resolving a reference changed the base")
	if rerr != nil {
		return
	}
	vnd.Cover("resolved", true)
	verifCheckDisjoint(b, r, "base and result of a resolution")
	arg := vnd.Str(vnd.Len(vnd.Param("C13.KArg", 0, 1)))
	for i := 0; i < 2; i++ {
		op := vnd.Pick(nAliasOps)
		if i == 0 || vnd.Pick(2) == 0 {
			bs := stateString(b)
			aliasOp(r, op, arg)
			verifCheckUnchanged(b, bs, "an operation on the result of a resolution changed the base")
		} else {
			rs := stateString(r)
			aliasOp(b, op, arg)
			verifCheckUnchanged(r, rs, "an operation on the base changed an earlier result")
		}
	}
	verifCheckDisjoint(b, r, "base and result after operations")
}

// VerifC13ResolveLeavesBase: the resolution itself (any reference shape with a window of arbitrary
// bytes, any base shape, also a symbolic base) leaves every observable of the base unchanged.
func VerifC13ResolveLeavesBase() {
	var baseStr, ref string
	if vnd.Pick(2) == 0 {
		baseStr = bases[vnd.Pick(len(bases))]
		ri := vnd.Pick(len(refCtx))
		ref = refCtx[ri].pre + vnd.Str(vnd.Len(vnd.Param("C13.KRef", 2, 3))) + refCtx[ri].suf
	} else {
		ci := vnd.Pick(len(ctxAbs))
		baseStr = ctxAbs[ci].pre + vnd.Str(vnd.Len(vnd.Param("C13.KBase", 1, 2))) + ctxAbs[ci].suf
		ref = refs[vnd.Pick(len(refs))]
	}
	b, err := Parse(baseStr)
	if err != nil {
		return
	}
	prepare(b, vnd.Pick(3))
	before := stateString(b)
	r, rerr := b.Parse(ref)
	verifCheckUnchanged(b, before, "resolving a reference changed the base")
	if rerr == nil {
		verifCheckDisjoint(b, r, "base and result of a resolution")
		// reading the result (incl. its lazily created search parameters) does not touch the base either
		_ = stateString(r)
		verifCheckDisjoint(b, r, "base and result of a resolution (after reading both)")
		verifCheckUnchanged(b, before, "reading the result of a resolution changed the base")
	}
}

var cloneStarts = []string{"http://h/p?a=1&b=2#f", "a:b  ?q", "http://h/?x", "a://h/p?%20x=+y&&z", "http://u:p@h:8/p?q#f", "file:///C:/d", "a:b ?q#f", "a:/.//p"}

// reportingStarts: under a reporting parser these carry 0, 3 and 5 recorded validation errors (slices with
// spare capacity behind them).
var reportingStarts = []string{"http://h/p?a=1&b=2#f", "http://h\\a\\b\\c?q", "http://h/a b c d e f?q"}

// VerifC13Clone: Clone returns a fully independent copy that behaves like the original would:
// after preparing lazily created state, clone; then two operations, each on the clone or on the
// original; the other value never changes and the clone reflects its operations like an
// independently built copy.
func VerifC13Clone() {
	// the default parser on every start shape, or a reporting parser (whose URL values carry their
	// validation errors) on three starts
	p := NewParser().(*parser)
	p.opts.reportValidationErrors = vnd.Bool()
	var start string
	if p.opts.reportValidationErrors {
		start = reportingStarts[vnd.Pick(len(reportingStarts))]
		vnd.Cover("clone-of-reporting-url", true)
	} else {
		start = cloneStarts[vnd.Pick(len(cloneStarts))]
	}
	// one symbolic byte in the query (or opaque path) of the start URL
	start += vnd.StrOver(vnd.Len(1), "ab&=%+ 2#")
	u, err := p.Parse(start)
	if err != nil {
		return
	}
	prep := vnd.Pick(nPrepare)
	prepare(u, prep)
	us := stateString(u)
	c := u.Clone()
	if stateString(c) != us {
		vnd.Fail("the clone differs from the original")
	}
	verifCheckUnchanged(u, us, "Clone changed the original")
	verifCheckDisjoint(u, c, "original and clone")
	// an independent copy made the long way: it must behave like the clone
	ind, ierr := p.Parse(start)
	if ierr != nil {
		return
	}
	prepare(ind, prep)
	arg := vnd.Str(vnd.Len(vnd.Param("C13.KCloneArg", 0, 0)))
	for i := 0; i < 2; i++ {
		op := vnd.Pick(nAliasOps)
		if vnd.Pick(2) == 0 {
			s := stateString(u)
			es := errString(u)
			aliasOp(c, op, arg)
			aliasOp(ind, op, arg)
			verifCheckUnchanged(u, s, "an operation on the clone changed the original")
			if errString(u) != es {
				vnd.Fail("an operation on the clone changed the validation errors recorded on the original")
			}
			if stateString(c) != stateString(ind) {
				vnd.Fail("the clone does not reflect its operations like an independent copy")
			}
		} else {
			s := stateString(c)
			es := errString(c)
			aliasOp(u, op, arg)
			verifCheckUnchanged(c, s, "an operation on the original changed the clone")
			if errString(c) != es {
				vnd.Fail("an operation on the original changed the validation errors recorded on the clone")
			}
		}
	}
	verifCheckDisjoint(u, c, "original and clone after operations")
}

func init() {
	verifHarnesses["VerifC13BaseUnchanged"] = VerifC13BaseUnchanged
	verifHarnesses["VerifC13Clone"] = VerifC13Clone
	verifHarnesses["VerifC13ResolveLeavesBase"] = VerifC13ResolveLeavesBase
}
