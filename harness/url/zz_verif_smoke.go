//go:build verif

package url

import "github.com/nlnwa/whatwg-url/internal/vnd"

// VerifSmokeAlpha: engine smoke test (bitset membership vs. range predicate).
func VerifSmokeAlpha() {
	b := vnd.Byte()
	r := rune(b)
	got := ASCIIAlpha.Test(uint(r))
	want := (b >= 'a' && b <= 'z') || (b >= 'A' && b <= 'Z')
	if got != want {
		vnd.Fail("alpha")
	}
}

// VerifSmokeParse: engine smoke test (parse with a symbolic window).
func VerifSmokeParse() {
	n := vnd.Param("K", 2, 3)
	s := vnd.Str(n)
	u, err := Parse("http://h/" + s)
	if err == nil {
		vnd.Observe("href", u.Href(false))
	} else {
		vnd.Observe("href", "<error>")
	}
}

// VerifSmokeConcrete: no symbolic input at all.
func VerifSmokeConcrete() {
	u, err := Parse("HTTP://Example.COM:80/a/../b?x#y")
	if err != nil {
		vnd.Fail("parse error")
		return
	}
	vnd.Observe("href", u.Href(false))
	if u.Href(false) != "http://example.com/b?x#y" {
		vnd.Fail("wrong href")
	}
}

func init() {
	verifHarnesses["VerifSmokeAlpha"] = VerifSmokeAlpha
	verifHarnesses["VerifSmokeParse"] = VerifSmokeParse
	verifHarnesses["VerifSmokeConcrete"] = VerifSmokeConcrete
}

// VerifSmokePicks: 3 x 4 concrete choices = 12 paths.
func VerifSmokePicks() {
	a := vnd.Pick(3)
	b := vnd.Pick(4)
	vnd.ObserveInt("ab", a*10+b)
}

func init() { verifHarnesses["VerifSmokePicks"] = VerifSmokePicks }
