//go:build verif

package url

import (
	"github.com/nlnwa/whatwg-url/errors"
	"github.com/nlnwa/whatwg-url/internal/vnd"
)

var documentedTypes = []errors.ErrorType{
	errors.DomainToASCII, errors.DomainToUnicode,
	errors.DomainInvalidCodePoint, errors.HostInvalidCodePoint, errors.IPv4EmptyPart, errors.IPv4TooManyParts, errors.IPv4NonNumericPart,
	errors.IPv4NonDecimalPart, errors.IPv4OutOfRangePart, errors.IPv6Unclosed, errors.IPv6InvalidCompression, errors.IPv6TooManyPieces,
	errors.IPv6MultipleCompression, errors.IPv6InvalidCodePoint, errors.IPv6TooFewPieces, errors.IPv4InIPv6TooManyPieces,
	errors.IPv4InIPv6InvalidCodePoint, errors.IPv4InIPv6OutOfRangePart, errors.IPv4InIPv6TooFewParts,
	errors.InvalidURLUnit, errors.SpecialSchemeMissingFollowingSolidus, errors.MissingSchemeNonRelativeURL, errors.InvalidReverseSolidus,
	errors.InvalidCredentials, errors.HostMissing, errors.PortMissing, errors.PortOutOfRange, errors.PortInvalid,
	errors.FileInvalidWindowsDriveLetter, errors.FileInvalidWindowsDriveLetterHost,
}

func isDocumentedType(t errors.ErrorType) bool {
	if t == "" {
		return false
	}
	for _, d := range documentedTypes {
		if t == d {
			return true
		}
	}
	return false
}

func parseWith(p Parser, in, base string, hasBase bool) (*Url, error) {
	if hasBase {
		return p.ParseRef(base, in)
	}
	return p.Parse(in)
}

// diagOptions: the non-diagnostic options a parser can be configured with; the relations between the
// diagnostics configurations must hold on top of each of them.
var diagOptions = []ParserOption{nil, WithLaxHostParsing(), WithCollapseConsecutiveSlashes(), WithAcceptInvalidCodepoints(),
	WithPercentEncodeSinglePercentSign(), WithSkipWindowsDriveLetterNormalization(), WithSkipTrailingSlashNormalization(),
	WithAllowSettingPathForNonBaseUrl()}

func diagParser(opt int, diag ...ParserOption) Parser {
	if opt > 0 {
		diag = append(diag, diagOptions[opt])
	}
	return NewParser(diag...)
}

// verifCheckDiagnostics: the relations between the four diagnostics configurations on one input.
func verifCheckDiagnostics(in, base string, hasBase bool) { verifCheckDiagnosticsOn(0, in, base, hasBase) }

// verifCheckDiagnosticsOn: the same on top of one non-diagnostic option.
func verifCheckDiagnosticsOn(opt int, in, base string, hasBase bool) {
	pd := diagParser(opt)
	pr := diagParser(opt, WithReportValidationErrors())
	pf := diagParser(opt, WithFailOnValidationError())
	pb := diagParser(opt, WithReportValidationErrors(), WithFailOnValidationError())
	ud, ed := parseWith(pd, in, base, hasBase)
	ur, er := parseWith(pr, in, base, hasBase)
	uf, ef := parseWith(pf, in, base, hasBase)
	ub, eb := parseWith(pb, in, base, hasBase)
	sd := snapImpl(ud, ed)
	vnd.Cover("default-accepts", ed == nil)
	vnd.Cover("default-rejects", ed != nil)
	vnd.Cover("fail-mode-rejects-what-default-accepts", ed == nil && ef != nil)
	// reporting never changes the outcome
	if d := verifCheckSnap(sd, snapImpl(ur, er)); d != "" {
		vnd.Fail("reporting validation errors changed the result: " + d)
	}
	// fail mode never accepts what the default rejects, and returns the same URL when it accepts
	if ef == nil {
		if d := verifCheckSnap(sd, snapImpl(uf, ef)); d != "" {
			vnd.Fail("fail-on-validation-error accepted with a different result: " + d)
		}
	}
	if eb == nil {
		if d := verifCheckSnap(sd, snapImpl(ub, eb)); d != "" {
			vnd.Fail("report+fail accepted with a different result: " + d)
		}
	}
	if (ef == nil) != (eb == nil) {
		vnd.Fail("fail mode and report+fail mode disagree on acceptance")
	}
	// without a base: fail mode accepts exactly the inputs for which reporting mode records nothing
	if !hasBase {
		clean := er == nil && len(ur.ValidationErrors()) == 0
		if (ef == nil) != clean {
			vnd.Fail("fail mode does not accept exactly the inputs reporting mode has nothing to say about")
		}
	}
	// every returned error carries a documented type; in the modes without fail-on-validation-error it is a failure
	for i, e := range []error{ed, er, ef, eb} {
		if e == nil {
			continue
		}
		if !isDocumentedType(errors.Type(e)) {
			vnd.Fail("a returned error has no documented error type")
		}
		if i < 2 && !errors.Failure(e) {
			vnd.Fail("a returned error is not marked as a failure")
		}
	}
	// every entry recorded on a successfully parsed URL is non-fatal and typed
	if er == nil {
		for _, e := range ur.ValidationErrors() {
			if errors.Failure(e) {
				vnd.Fail("an entry recorded on a successfully parsed URL is marked as a failure")
			}
			if !isDocumentedType(errors.Type(e)) {
				vnd.Fail("a recorded entry has no documented error type")
			}
		}
	}
}

// VerifC15Abs: absolute contexts, no base.
func VerifC15Abs() {
	ci := vnd.Pick(len(ctxAbs))
	verifCheckDiagnostics(ctxAbs[ci].pre+vnd.Str(vnd.Len(vnd.Param("C15.KAbs", 2, 3)))+ctxAbs[ci].suf, "", false)
}

// VerifC15Hosts: host and port contexts where most validation errors live.
func VerifC15Hosts() {
	ci := vnd.Pick(len(hostCtx))
	verifCheckDiagnostics(hostCtx[ci].pre+vnd.StrOver(vnd.Len(vnd.Param("C15.KHost", 4, 5)), "0123456789.xXaf:[]g-%_ ")+hostCtx[ci].suf, "", false)
}

// VerifC15Rel: with a base.
func VerifC15Rel() {
	bi := vnd.Pick(len(bases))
	ri := vnd.Pick(len(refCtx))
	verifCheckDiagnostics(refCtx[ri].pre+vnd.Str(vnd.Len(vnd.Param("C15.KRel", 1, 2)))+refCtx[ri].suf, bases[bi], true)
}

// VerifC15HostDigits: hosts next to the numeric boundaries of the IPv4 parser (256, 2^16, 2^24, 2^32, 2^63,
// 2^64 in decimal, hex and octal, by part position): where range errors are raised, probed and classified.
func VerifC15HostDigits() {
	dc := digitCtxs[vnd.Pick(len(digitCtxs))]
	n := vnd.Len(vnd.Param("C15.KDigits", 2, 3))
	suf := digitSuffixes[vnd.Pick(len(digitSuffixes))]
	verifCheckDiagnostics("http://"+dc.pre+vnd.StrOver(n, dc.alphabet)+suf+"/", "", false)
}

// VerifC15Configured: the same relations on top of each non-diagnostic parser option.
func VerifC15Configured() {
	opt := 1 + vnd.Pick(len(diagOptions)-1)
	ci := vnd.Pick(len(ctxAbs))
	vnd.Cover("configured-parser", true)
	verifCheckDiagnosticsOn(opt, ctxAbs[ci].pre+vnd.Str(vnd.Len(vnd.Param("C15.KConf", 1, 2)))+ctxAbs[ci].suf, "", false)
}

// VerifC15ConfiguredHosts: the relations in host position (address-shaped windows) on top of each
// non-diagnostic option: where the host parser's own validation errors (non-decimal IPv4 parts,
// trailing dots, forbidden code points) meet lax host parsing and the other options.
func VerifC15ConfiguredHosts() {
	opt := 1 + vnd.Pick(len(diagOptions)-1)
	ci := vnd.Pick(len(hostCtx))
	vnd.Cover("configured-parser", true)
	verifCheckDiagnosticsOn(opt, hostCtx[ci].pre+vnd.StrOver(vnd.Len(vnd.Param("C15.KConfHost", 2, 3)), "0123456789.xXaf:[]g-%_ ")+hostCtx[ci].suf, "", false)
}

// VerifC15LongHosts: domains at the DNS length limits (labels of 62..65, names of 252..255
// characters), which the standard neither rejects nor reports (domain to ASCII runs with
// beStrict false, so VerifyDnsLength is off); first and last character symbolic.
func VerifC15LongHosts() {
	n := []int{62, 63, 64, 65, 252, 253, 254, 255}[vnd.Pick(8)]
	label := ""
	for len(label) < n-2 {
		if n > 100 && len(label)%50 == 49 {
			label += "."
		} else {
			label += "a"
		}
	}
	host := vnd.StrOver(1, "aZ9") + label + vnd.StrOver(1, "aZ9-.")
	opt := []int{0, 1}[vnd.Pick(2)]
	verifCheckDiagnosticsOn(opt, "https://"+host+"/p", "", false)
}

func init() {
	verifHarnesses["VerifC15ConfiguredHosts"] = VerifC15ConfiguredHosts
	verifHarnesses["VerifC15LongHosts"] = VerifC15LongHosts
	verifHarnesses["VerifC15HostDigits"] = VerifC15HostDigits
	verifHarnesses["VerifC15Configured"] = VerifC15Configured
	verifHarnesses["VerifC15Abs"] = VerifC15Abs
	verifHarnesses["VerifC15Hosts"] = VerifC15Hosts
	verifHarnesses["VerifC15Rel"] = VerifC15Rel
}
