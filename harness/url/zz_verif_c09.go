//go:build verif

package url

import (
	"github.com/nlnwa/whatwg-url/internal/vnd"
	model "github.com/nlnwa/whatwg-url/internal/whatwgmodel"
)

func lowerASCII(s string) string {
	b := []byte(s)
	for i := 0; i < len(b); i++ {
		if b[i] >= 'A' && b[i] <= 'Z' {
			b[i] += 32
		}
	}
	return string(b)
}

func hasACELabel(s string) bool {
	l := lowerASCII(s)
	for i := 0; i+4 <= len(l); i++ {
		if (i == 0 || l[i-1] == '.') && l[i] == 'x' && l[i+1] == 'n' && l[i+2] == '-' && l[i+3] == '-' {
			return true
		}
	}
	return false
}

// verifCheckDomainHost: the serialized host of an accepted special URL with host text w.
func verifCheckDomainHost(u *Url, w string) {
	hn := u.Hostname()
	vnd.Observe("hostname", hn)
	if len(hn) > 0 && hn[0] == '[' {
		return
	}
	for i := 0; i < len(hn); i++ {
		if hn[i] >= 0x80 {
			vnd.Fail("domain host is not ASCII")
		}
		if hn[i] >= 'A' && hn[i] <= 'Z' {
			vnd.Fail("domain host is not lowercase")
		}
		if forbiddenDomainByte(hn[i]) {
			vnd.Fail("domain host contains a forbidden domain code point")
		}
	}
	// the host text is what reaches the host parser: ASCII tab/LF/CR are removed from the whole input first
	hb := make([]byte, 0, len(w))
	for i := 0; i < len(w); i++ {
		if w[i] != 0x09 && w[i] != 0x0A && w[i] != 0x0D {
			hb = append(hb, w[i])
		}
	}
	dec := model.PercentDecode(string(hb))
	ascii := true
	for i := 0; i < len(dec); i++ {
		if dec[i] >= 0x80 {
			ascii = false
		}
	}
	if ascii && !hasACELabel(dec) && !model.EndsInANumber(lowerASCII(dec)) {
		if hn != lowerASCII(dec) {
			vnd.Fail("a pure-ASCII host is not its lowercased percent-decoded form")
		}
	}
}

const domainSigma = "aZ.-_%41gx2eE!~ "

// VerifC09DomainAscii: https://W/ with W ASCII: against the standard (acceptance and all observables)
// and against the closed form (lowercased percent-decoding).
func VerifC09DomainAscii() {
	var w string
	if vnd.Pick(2) == 0 {
		w = vnd.StrOver(vnd.Len(vnd.Param("C09.KAscii", 2, 3)), asciiHostBytes())
	} else {
		w = vnd.StrOver(vnd.Len(vnd.Param("C09.KSigma", 4, 5)), domainSigma)
	}
	in := "https://" + w + "/"
	u, err := Parse(in)
	vnd.Cover("domain-accepted", err == nil)
	vnd.Cover("domain-rejected", err != nil)
	compareParse(in, "", false)
	if err == nil {
		verifCheckDomainHost(u, w)
	}
}

func sameHostResult(a *Url, aerr error, b *Url, berr error) bool {
	if (aerr != nil) != (berr != nil) {
		return false
	}
	if aerr != nil {
		return true
	}
	return a.Hostname() == b.Hostname() && a.Href(false) == b.Href(false)
}

// VerifC09DomainCase: the result does not depend on the ASCII letter case of the host.
func VerifC09DomainCase() {
	n := vnd.Len(vnd.Param("C09.KCase", 3, 4))
	w := []byte(vnd.StrOver(n, "abzABZ.-1%4x_"))
	w2 := make([]byte, n)
	for i := 0; i < n; i++ {
		c := w[i]
		flip := vnd.Bool()
		if flip && ((c >= 'a' && c <= 'z') || (c >= 'A' && c <= 'Z')) {
			c ^= 0x20
		}
		w2[i] = c
	}
	schemes := []string{"https", "file"}
	sc := schemes[vnd.Pick(2)]
	a, aerr := Parse(sc + "://" + string(w) + "/p")
	b, berr := Parse(sc + "://" + string(w2) + "/p")
	if !sameHostResult(a, aerr, b, berr) {
		vnd.Fail("the host depends on the ASCII letter case of the input")
	}
}

// VerifC09DomainEscapes: the result does not depend on whether a code point of the host is
// written percent-encoded (W without a literal '%', one position rewritten as %XY with symbolic hex case).
func VerifC09DomainEscapes() {
	n := 1 + vnd.Pick(vnd.Param("C09.KEsc", 3, 4))
	w := vnd.StrOver(n, "abzABZ.-1x_~!")
	p := vnd.Pick(n)
	c := w[p]
	hexd := func(v byte, upper bool) byte {
		if v < 10 {
			return '0' + v
		}
		if upper {
			return 'A' + v - 10
		}
		return 'a' + v - 10
	}
	esc := string([]byte{'%', hexd(c>>4, vnd.Bool()), hexd(c&15, vnd.Bool())})
	w2 := w[:p] + esc + w[p+1:]
	schemes := []string{"https", "file"}
	sc := schemes[vnd.Pick(2)]
	a, aerr := Parse(sc + "://" + w + "/p")
	b, berr := Parse(sc + "://" + w2 + "/p")
	if !sameHostResult(a, aerr, b, berr) {
		vnd.Fail("the host depends on whether a code point was written percent-encoded")
	}
}

// VerifC09FileLocalhost: file://localhost in every case spelling, with one position optionally
// percent-encoded, has the empty host.
func VerifC09FileLocalhost() {
	base := "localhost"
	w := make([]byte, 0, 12)
	esc := vnd.Pick(len(base) + 1) // position to escape, or none
	for i := 0; i < len(base); i++ {
		c := base[i]
		if vnd.Bool() {
			c ^= 0x20
		}
		if i == esc {
			hi, lo := c>>4, c&15
			hc := byte('0' + hi)
			lc := byte('0' + lo)
			if lo >= 10 {
				lc = 'a' + lo - 10
				if vnd.Bool() {
					lc = 'A' + lo - 10
				}
			}
			w = append(w, '%', hc, lc)
		} else {
			w = append(w, c)
		}
	}
	u, err := Parse("file://" + string(w) + "/p")
	if err != nil {
		vnd.Fail("file://localhost/... rejected")
	}
	if u.Hostname() != "" || u.Href(false) != "file:///p" {
		vnd.Fail("a file URL's host localhost did not become the empty host")
	}
}

// nonASCIIHosts: concrete non-ASCII hosts (mapped, fullwidth, mathematical, sharp s, ideographic dot):
// only their spelling varies symbolically; the mapping itself is the real UTS-46 library's.
var nonASCIIHosts = []string{"𝐀bc.Example", "ＡＢＣ.com", "faß.de", "a。b", "Bücher.example", "ǅ.com", "☃.net",
	// code points for which a case mapping, fold or normalisation applied to the literal spelling before
	// domain-to-ASCII would be observable (computed against the real UTS-46 tables: the 43 code points where
	// ToLower disagrees with the IDNA mapping, the 43 for ToUpper/ToTitle, the 86 for SimpleFold - one or
	// two representatives per script - and compatibility/normalisation forms)
	"İstanbul.example", "aıb.com", "STRAẞE.de", "Ⴀ.example", "Ⴥa.example", "ⴀ.ge", "Ӏa.com", "ӏa.com", "aΣ.gr", "ας.gr", "Ⅎ.com", "ⅎ.com", "Ↄ.com", "ↄ.com",
	"ſ.com", "\u212a.com", "e\u0301.com", "ﬁ.com", "①.com", "㎒.com", "\u00ad-a.com", "a\u200db.com", "ⓐ.com"}

func percentEncodeAll(s string, upper bool) string {
	out := make([]byte, 0, 3*len(s))
	for i := 0; i < len(s); i++ {
		out = append(out, '%', hexUp(s[i]>>4), hexUp(s[i]&15))
	}
	if !upper {
		return lowerASCII(string(out))
	}
	return string(out)
}

// VerifC09NonASCIISpellings: for concrete non-ASCII hosts the result does not depend on whole-code-point
// percent-encoding, under the default parser and under accept-invalid-code-points.
func VerifC09NonASCIISpellings() {
	h := nonASCIIHosts[vnd.Pick(len(nonASCIIHosts))]
	var p Parser = NewParser()
	if vnd.Pick(2) == 1 {
		p = NewParser(WithAcceptInvalidCodepoints())
	}
	raw, rerr := p.Parse("https://" + h + "/")
	enc, eerr := p.Parse("https://" + percentEncodeAll(h, vnd.Pick(2) == 1) + "/")
	if !sameHostResult(raw, rerr, enc, eerr) {
		vnd.Fail("a non-ASCII host depends on whether it was written percent-encoded")
	}
	if rerr == nil {
		hn := raw.Hostname()
		for i := 0; i < len(hn); i++ {
			if hn[i] >= 0x80 || (hn[i] >= 'A' && hn[i] <= 'Z') {
				vnd.Fail("the serialized host of a non-ASCII input is not lowercase ASCII")
			}
		}
	}
}

// VerifC09DomainConfigured: domain normalisation does not depend on how the parser was configured, as long
// as the scheme is special for it: a scheme added with WithSpecialSchemes (short, or longer than every
// built-in one) normalises its host exactly like http does, and identity pre-/post-parse-host hooks change
// nothing. W over every ASCII byte except the host delimiters, and the concrete non-ASCII hosts.
func VerifC09DomainConfigured() {
	var w string
	if vnd.Bool() {
		w = vnd.StrOver(vnd.Len(vnd.Param("C09.KConfigured", 2, 3)), asciiHostBytes())
	} else {
		w = nonASCIIHosts[vnd.Pick(len(nonASCIIHosts))]
	}
	d, derr := Parse("http://" + w + "/")
	var u *Url
	var err error
	switch vnd.Pick(4) {
	case 0:
		p := NewParser(WithSpecialSchemes(map[string]string{"ftp": "21", "file": "", "http": "80", "https": "443", "ws": "80", "wss": "443", "gopher": "70", "g": "7", "coffeepot": "80"}))
		scheme := []string{"gopher", "g", "coffeepot", "file", "wss"}[vnd.Pick(5)]
		u, err = p.Parse(scheme + "://" + w + "/")
		if scheme == "file" {
			// a built-in scheme listed again in the configured table keeps its own host rules
			// (file: localhost becomes the empty host)
			d, derr = Parse("file://" + w + "/")
		}
	case 1:
		u, err = NewParser(WithPostParseHostFunc(func(_ *Url, h string) string { return h })).Parse("http://" + w + "/")
	case 2:
		u, err = NewParser(WithPreParseHostFunc(func(_ *Url, h string) string { return h })).Parse("http://" + w + "/")
	case 3:
		u, err = NewParser(WithPreParseHostFunc(func(_ *Url, h string) string { return h }), WithPostParseHostFunc(func(_ *Url, h string) string { return h })).Parse("https://" + w + "/")
	}
	vnd.Cover("configured-domain", err == nil)
	if (err != nil) != (derr != nil) {
		vnd.Fail("the same host is accepted under one parser configuration and rejected under another")
	}
	if err == nil && u.Hostname() != d.Hostname() {
		vnd.Observe("default", d.Hostname())
		vnd.Observe("configured", u.Hostname())
		vnd.Fail("the normalised host depends on the parser configuration (added special scheme / identity host hooks)")
	}
}

func init() {
	verifHarnesses["VerifC09DomainConfigured"] = VerifC09DomainConfigured
	verifHarnesses["VerifC09DomainAscii"] = VerifC09DomainAscii
	verifHarnesses["VerifC09DomainCase"] = VerifC09DomainCase
	verifHarnesses["VerifC09DomainEscapes"] = VerifC09DomainEscapes
	verifHarnesses["VerifC09FileLocalhost"] = VerifC09FileLocalhost
	verifHarnesses["VerifC09NonASCIISpellings"] = VerifC09NonASCIISpellings
}
