//go:build verif

package url

import "github.com/nlnwa/whatwg-url/internal/vnd"

// cleaned: the reference as the parser sees it: leading/trailing C0-or-space stripped, tab/LF/CR removed.
func cleaned(s string) string {
	lo, hi := 0, len(s)
	for lo < hi && s[lo] <= 0x20 {
		lo++
	}
	for hi > lo && s[hi-1] <= 0x20 {
		hi--
	}
	out := make([]byte, 0, hi-lo)
	for i := lo; i < hi; i++ {
		if s[i] == 0x09 || s[i] == 0x0A || s[i] == 0x0D {
			continue
		}
		out = append(out, s[i])
	}
	return string(out)
}

func isAlphaByte(b byte) bool { return (b >= 'a' && b <= 'z') || (b >= 'A' && b <= 'Z') }

// hasScheme: the cleaned reference starts with alpha *(alnum + - .) ':'.
func hasScheme(c string) bool {
	if len(c) == 0 || !isAlphaByte(c[0]) {
		return false
	}
	for i := 1; i < len(c); i++ {
		b := c[i]
		if b == ':' {
			return true
		}
		if !(isAlphaByte(b) || (b >= '0' && b <= '9') || b == '+' || b == '-' || b == '.') {
			return false
		}
	}
	return false
}

func verifCheckSameResult(a *Url, aerr error, b *Url, berr error, what string) {
	sa, sb := snapImpl(a, aerr), snapImpl(b, berr)
	if d := verifCheckSnap(sa, sb); d != "" {
		vnd.Fail(what + ": " + d)
	}
}

// VerifC06Laws: the 13 base shapes x reference shapes with a window.
func VerifC06Laws() {
	ri := vnd.Pick(len(refCtx))
	ref := refCtx[ri].pre + vnd.Str(vnd.Len(vnd.Param("C06.KRef", 2, 3))) + refCtx[ri].suf
	if bi := vnd.Pick(len(bases) + len(edgeBases)); bi < len(bases) {
		checkLaws(bases[bi], ref)
	} else {
		checkLaws(edgeBases[bi-len(bases)], ref)
	}
}

// edgeBases: base strings with Unicode white space that is NOT ASCII white space at their ends (the
// standard strips only C0 control or space): kept and percent-encoded.
var edgeBases = []string{"http://h/p?q\u3000", "http://h/p\u0085", "a:b\u2028"}

// VerifC06LawsSymBase: symbolic base (context + window) x the concrete references.
func VerifC06LawsSymBase() {
	ci := vnd.Pick(len(ctxAbs))
	baseStr := ctxAbs[ci].pre + vnd.Str(vnd.Len(vnd.Param("C06.KBase", 1, 2))) + ctxAbs[ci].suf
	checkLaws(baseStr, refs[vnd.Pick(len(refs))])
}

// checkLaws: relations between calls of the real code (no model).
func checkLaws(baseStr, ref string) {
	b, berr := Parse(baseStr)
	if berr != nil {
		return
	}
	// a base URL value that has been read (its search parameters looked at) is still only read
	if vnd.Pick(2) == 1 {
		_ = b.SearchParams().Has("x")
		_ = b.SearchParams().Get("x")
	}
	// (a) the three ways to resolve agree
	r1, e1 := ParseRef(baseStr, ref)
	r2, e2 := NewParser().ParseRef(baseStr, ref)
	r3, e3 := b.Parse(ref)
	if baseStr != "" {
		verifCheckSameResult(r1, e1, r3, e3, "package ParseRef and (*Url).Parse disagree")
		verifCheckSameResult(r2, e2, r3, e3, "Parser.ParseRef and (*Url).Parse disagree")
	}
	vnd.Cover("resolved", e3 == nil)
	verifCheckLawsOn(b, r3, e3, ref, false)
}

// verifCheckLawsOn: laws (c)-(f) for one resolution r3 = b.Parse(ref), whatever parser b came from.
func verifCheckLawsOn(b *Url, r3 *Url, e3 error, ref string, failMode bool) {
	c := cleaned(ref)
	opaqueBase := b.OpaquePath()
	if opaqueBase {
		// (d') a base with an opaque path accepts exactly '#...' references and absolute ones
		rel := !hasScheme(c)
		startsHash := len(c) > 0 && c[0] == '#'
		if rel && !startsHash && e3 == nil {
			vnd.Fail("a base with an opaque path accepted a relative reference that is not '#...'")
		}
		// (under fail-on-validation-error any validation error in the fragment is a rejection)
		if rel && startsHash && e3 != nil && !failMode {
			vnd.Fail("a base with an opaque path rejected a '#...' reference")
		}
	}
	if e3 != nil {
		return
	}
	// (f) a reference without a scheme yields the base's scheme
	if !hasScheme(c) && r3.Scheme() != b.Scheme() {
		vnd.Fail("a reference without a scheme does not yield the base's scheme")
	}
	// (c) the empty reference yields the base without its fragment
	if c == "" && !opaqueBase {
		if r3.Href(false) != b.Href(true) || r3.Hash() != "" {
			vnd.Fail("the empty reference does not yield the base without its fragment")
		}
	}
	// (d) '#f' changes only the fragment
	if len(c) > 0 && c[0] == '#' {
		if r3.Href(true) != b.Href(true) || r3.Protocol() != b.Protocol() || r3.Username() != b.Username() || r3.Password() != b.Password() ||
			r3.Host() != b.Host() || r3.Pathname() != b.Pathname() || r3.Search() != b.Search() {
			vnd.Fail("a '#f' reference changed more than the fragment")
		}
	}
	// (e) '?q' replaces the query, drops the fragment, keeps scheme, credentials, host, port and path
	if len(c) > 0 && c[0] == '?' && !opaqueBase {
		if r3.Protocol() != b.Protocol() || r3.Username() != b.Username() || r3.Password() != b.Password() ||
			r3.Host() != b.Host() || r3.Port() != b.Port() || r3.Pathname() != b.Pathname() {
			vnd.Fail("a '?q' reference changed scheme, credentials, host, port or path")
		}
		hasHashInRef := false
		for i := 0; i < len(c); i++ {
			if c[i] == '#' {
				hasHashInRef = true
			}
		}
		if !hasHashInRef && (r3.Hash() != "" || r3.Href(true) != r3.Href(false)) {
			vnd.Fail("a '?q' reference did not drop the fragment")
		}
	}
}

// optionBases: bases on which parser options make a difference.
var optionBases = []string{"http://h//a//b/", "https://h", "gopher://h:70/a\\b", "file:///C|/d", "http://h/%zz?%", "http://h/p?a&b=", "http://u:p@h:8", "ws://h?q#f"}

// VerifC06LawsConfigured: for a configured parser, Parser.ParseRef(base, ref) agrees with
// Parser.Parse(base) followed by (*Url).Parse(ref).
func VerifC06LawsConfigured() {
	p := symbolicParser()
	if vnd.Pick(2) == 1 {
		p.opts.specialSchemes = map[string]string{"ftp": "21", "file": "", "http": "80", "https": "443", "ws": "80", "wss": "443", "gopher": "70"}
	}
	var baseStr string
	if vnd.Pick(2) == 0 {
		baseStr = optionBases[vnd.Pick(len(optionBases))]
	} else {
		baseStr = bases[vnd.Pick(len(bases))]
	}
	var ref string
	if vnd.Pick(2) == 0 {
		ref = refs[vnd.Pick(len(refs))]
	} else {
		ri := vnd.Pick(len(refCtx))
		ref = refCtx[ri].pre + vnd.Str(vnd.Len(vnd.Param("C06.KCfg", 1, 2))) + refCtx[ri].suf
	}
	r1, e1 := p.ParseRef(baseStr, ref)
	b, berr := p.Parse(baseStr)
	if berr != nil {
		if e1 == nil {
			vnd.Fail("Parser.ParseRef accepted a base the same parser rejects")
		}
		return
	}
	r2, e2 := b.Parse(ref)
	verifCheckSameResult(r1, e1, r2, e2, "Parser.ParseRef and Parser.Parse + (*Url).Parse disagree for a configured parser")
	// the laws hold for every configuration: the base was normalised by the same parser
	vnd.Cover("configured-laws", e2 == nil)
	verifCheckLawsOn(b, r2, e2, ref, p.opts.failOnValidationError)
}

// selfBases: the base shapes, the four most different first.
var selfBases = []string{
	"http://h/p/q?x#y", "file:///C:/d/e", "a://h/p/q", "a:b",
	"http://u:p@h:8/a/b/", "https://h", "ws://h/p", "file://h/d", "file:///", "a://h", "a:/p/q", "a:/.//p", "a:b ?q#f",
}

// VerifC06SelfResolve: the serialization of any parsed URL resolves to itself against any base.
func VerifC06SelfResolve() {
	ci := vnd.Pick(len(ctxAbs))
	u, err := Parse(ctxAbs[ci].pre + vnd.Str(vnd.Len(vnd.Param("C06.KSelf", 2, 3))) + ctxAbs[ci].suf)
	if err != nil {
		return
	}
	baseStr := selfBases[vnd.Pick(vnd.Param("C06.SelfBases", 4, 4))]
	r, rerr := ParseRef(baseStr, u.Href(false))
	verifCheckSameResult(r, rerr, u, nil, "the serialization of a URL does not resolve to itself against a base")
}

func init() {
	verifHarnesses["VerifC06Laws"] = VerifC06Laws
	verifHarnesses["VerifC06LawsConfigured"] = VerifC06LawsConfigured
	verifHarnesses["VerifC06LawsSymBase"] = VerifC06LawsSymBase
	verifHarnesses["VerifC06SelfResolve"] = VerifC06SelfResolve
}
