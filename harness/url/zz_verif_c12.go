//go:build verif

package url

import (
	"github.com/nlnwa/whatwg-url/internal/vnd"
	model "github.com/nlnwa/whatwg-url/internal/whatwgmodel"
)

// queryOfHref: the text between the first '?' and the following '#' (or the end) of a serialization.
func queryOfHref(h string) (string, bool) {
	for i := 0; i < len(h); i++ {
		if h[i] == '#' {
			return "", false
		}
		if h[i] == '?' {
			j := i + 1
			for j < len(h) && h[j] != '#' {
				j++
			}
			return h[i+1 : j], true
		}
	}
	return "", false
}

// verifCheckListToURL: after a search-parameter mutation the URL's Query, Search and
// serialization equal the list's serialization.
func verifCheckListToURL(u *Url, sp *SearchParams) {
	s := sp.String()
	if u.Query() != s {
		vnd.Fail("after a SearchParams mutation Query() differs from the list's serialization")
	}
	if (s == "" && u.Search() != "") || (s != "" && u.Search() != "?"+s) {
		vnd.Fail("after a SearchParams mutation Search() differs from the list's serialization")
	}
	hq, _ := queryOfHref(u.Href(false))
	if hq != s {
		vnd.Fail("after a SearchParams mutation the serialization's query differs from the list's serialization")
	}
}

// verifCheckURLToList: after a search setter call the list equals the form-urlencoded parse of the
// new query (and is empty after the query is cleared), also for a handle obtained before the call.
func verifCheckURLToList(u *Url, sp *SearchParams, cleared bool) {
	if u.SearchParams() != sp {
		vnd.Fail("SearchParams() returns a different handle after SetSearch")
	}
	got := implPairs(sp)
	if cleared {
		if len(got) != 0 || u.Query() != "" {
			vnd.Fail("the parameter list is not empty after the query was cleared")
		}
		return
	}
	q := u.Query()
	if !samePairs(got, model.FormParse(q)) {
		vnd.Known("form-parse-plus", classFParse(q))
		vnd.Fail("after SetSearch the parameter list is not the form-urlencoded parse of the new query")
	}
}

var syncStarts = []string{"http://h/p?a=1&b=2#f", "http://h/p", "a:b?x=y", "a:b ", "http://h/p?%41=+&&c#"}

const syncSigma = "ab&=+%2B ?#\t"

// VerifC12Sync: interleavings of SearchParams mutations, SetSearch and other setters; the handle
// is obtained first.
func VerifC12Sync() {
	// the parser's diagnostics options are symbolic: fail-on-validation-error makes the setters' inner
	// parse return early, which must not leave the two representations out of step
	p := NewParser().(*parser)
	p.opts.failOnValidationError = vnd.Bool()
	p.opts.reportValidationErrors = vnd.Bool()
	u, err := p.Parse(syncStarts[vnd.Pick(len(syncStarts))])
	if err != nil {
		return
	}
	sp := u.SearchParams()
	depth := vnd.Param("C12.Depth", 2, 2)
	k := vnd.Param("C12.K", 2, 3)
	for i := 0; i < depth; i++ {
		var arg string
		if i == depth-1 {
			if vnd.Pick(2) == 0 {
				arg = vnd.Str(vnd.Len(vnd.Param("C12.KFull", 1, 2)))
			} else {
				arg = vnd.StrOver(vnd.Len(k), syncSigma)
			}
		} else {
			arg = []string{"", "?", "a=1", "?a b&c", "a", "\t", "%zz"}[vnd.Pick(7)]
		}
		switch vnd.Pick(9) {
		case 0:
			sp.Append(arg, "v")
			verifCheckListToURL(u, sp)
		case 1:
			sp.Delete(arg)
			verifCheckListToURL(u, sp)
		case 2:
			sp.Set(arg, "w")
			verifCheckListToURL(u, sp)
		case 3:
			sp.Sort()
			verifCheckListToURL(u, sp)
		case 4:
			u.SetSearch(arg)
			vnd.Cover("setsearch", true)
			verifCheckURLToList(u, sp, arg == "")
		case 5:
			u.SetHash(arg)
		case 6:
			u.SetPathname(arg)
		case 7:
			u.SetProtocol("https")
		case 8:
			sp.SortAbsolute()
			verifCheckListToURL(u, sp)
		}
	}
	// whatever happened, a further mutation writes the whole list through
	sp.Append("z", "1")
	verifCheckListToURL(u, sp)
}

// VerifC12SyncRelated: two URL values related by resolution or Clone each have their own query and their
// own parameter list: a mutation on one side keeps that side in step and leaves the other side's query
// and list describing the same (old) query.
func VerifC12SyncRelated() {
	u, err := Parse(syncStarts[vnd.Pick(len(syncStarts))])
	if err != nil {
		return
	}
	var sp *SearchParams
	early := vnd.Bool()
	if early {
		sp = u.SearchParams() // the handle exists before the relative is made
	}
	var r *Url
	switch vnd.Pick(3) {
	case 0:
		r, err = u.Parse("")
	case 1:
		r, err = u.Parse("#x")
	default:
		r = u.Clone()
	}
	if err != nil || r == nil {
		return
	}
	if !early {
		sp = u.SearchParams()
	}
	rp := r.SearchParams()
	// which side is mutated
	a, ap, b, bp := u, sp, r, rp
	if vnd.Bool() {
		a, ap, b, bp = r, rp, u, sp
	}
	bq0 := b.Query()
	bl0 := implPairs(bp)
	arg := vnd.StrOver(vnd.Len(vnd.Param("C12.KRelated", 1, 2)), "ab&= ")
	switch vnd.Pick(5) {
	case 0:
		ap.Append(arg, "v")
		verifCheckListToURL(a, ap)
	case 1:
		ap.Set("a", arg)
		verifCheckListToURL(a, ap)
	case 2:
		ap.Delete("a")
		verifCheckListToURL(a, ap)
	case 3:
		ap.Sort()
		verifCheckListToURL(a, ap)
	case 4:
		a.SetSearch(arg)
		verifCheckURLToList(a, ap, arg == "")
	}
	vnd.Cover("related-mutated", true)
	if b.Query() != bq0 {
		vnd.Fail("a mutation on a related URL value changed this URL's query: it no longer matches its own parameter list")
	}
	if !samePairs(implPairs(bp), bl0) {
		vnd.Fail("a mutation on a related URL value changed this URL's parameter list")
	}
	// and a later mutation on the other side writes its own list through
	bp.Append("z", "1")
	verifCheckListToURL(b, bp)
}

func init() {
	verifHarnesses["VerifC12SyncRelated"] = VerifC12SyncRelated
	verifHarnesses["VerifC12Sync"] = VerifC12Sync
}
