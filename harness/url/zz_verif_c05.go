//go:build verif

package url

import (
	"github.com/nlnwa/whatwg-url/internal/vnd"
	model "github.com/nlnwa/whatwg-url/internal/whatwgmodel"
)

func applyModelSetter(mu *model.URL, op int, val string) {
	switch op {
	case 0:
		mu.SetProtocol(val)
	case 1:
		mu.SetUsername(val)
	case 2:
		mu.SetPassword(val)
	case 3:
		mu.SetHost(val)
	case 4:
		mu.SetHostname(val)
	case 5:
		mu.SetPort(val)
	case 6:
		mu.SetPathname(val)
	case 7:
		mu.SetSearch(val)
	case 8:
		mu.SetHash(val)
	}
}

// stepBoth applies setter op with value val to the implementation and to the model and
// compares all observables with the standard's result.
func stepBoth(u *Url, mu *model.URL, op int, val string) {
	applySetter(u, opSetterNames[op], val)
	applyModelSetter(mu, op, val)
	si, sm := snapImpl(u, nil), snapModel(mu, true)
	if d := verifCheckSnap(si, sm); d != "" {
		observeSnap("impl.", si)
		observeSnap("model.", sm)
		vnd.Known("tabnl-splice", hasTabNLNearNonASCII(val))
		vnd.Fail("after the " + opSetterNames[op] + " setter the URL differs from the standard's: " + d)
	}
}

func startBoth(start string) (*Url, *model.URL, bool) {
	u, err := Parse(start)
	mu, ok := model.Parse(start, nil)
	if (err != nil) != !ok {
		vnd.Fail("start URL: acceptance differs from the standard")
	}
	if err != nil {
		return nil, nil, false
	}
	return u, mu, true
}

// VerifC05SetOne: every setter with a window of arbitrary bytes on every start URL shape.
func VerifC05SetOne() {
	u, mu, ok := startBoth(startURLs[vnd.Pick(len(startURLs))])
	if !ok {
		return
	}
	op := vnd.Pick(9)
	stepBoth(u, mu, op, vnd.Str(vnd.Len(vnd.Param("C05.KOne", 2, 3))))
}

var setterSigma = []string{
	"htpsfilew:a+-.1",       // protocol
	"a:@/%4 ",               // username
	"a:@/%4 ",               // password
	"a:0189.x[]/?#@%\\",     // host
	"a:0189.x[]/?#@%\\",     // hostname
	"0123456789a /?#:",      // port
	"a./\\%2eC|:?#",         // pathname
	"?a=&+%2#' ",            // search
	"#a %2`\"<",             // hash
}

// VerifC05SetOneSigma: deeper windows over per-setter alphabets (the argument of host, hostname,
// port, pathname and protocol goes through a real sub-parser).
func VerifC05SetOneSigma() {
	u, mu, ok := startBoth(startURLs[vnd.Pick(vnd.Param("C05.SigmaStarts", 8, 19))])
	if !ok {
		return
	}
	op := vnd.Pick(9)
	stepBoth(u, mu, op, vnd.StrOver(vnd.Len(vnd.Param("C05.KSigma", 3, 4)), setterSigma[op]))
}

// setSeq: sequences: the state left by one setter feeds the next. All calls but the last take
// a value from the concrete lists (which toggle every guard); the last takes a window.
func setSeq(depth, k, nstarts int) {
	u, mu, ok := startBoth(startURLs[vnd.Pick(nstarts)])
	if !ok {
		return
	}
	for i := 0; i < depth; i++ {
		op := vnd.Pick(9)
		var val string
		if i == depth-1 {
			val = vnd.Str(vnd.Len(k))
		} else {
			vals := setterValues[op]
			val = vals[vnd.Pick(len(vals))]
		}
		stepBoth(u, mu, op, val)
	}
}

func VerifC05SetSeq2() { setSeq(2, vnd.Param("C05.KSeq2", 1, 2), vnd.Param("C05.Starts2", 8, 8)) }
func VerifC05SetSeq3() { setSeq(3, vnd.Param("C05.KSeq3", 0, 0), vnd.Param("C05.Starts3", 4, 4)) }

func currentValue(u *Url, op int) string {
	switch op {
	case 0:
		return u.Protocol()
	case 1:
		return u.Username()
	case 2:
		return u.Password()
	case 3:
		return u.Host()
	case 4:
		return u.Hostname()
	case 5:
		return u.Port()
	case 6:
		return u.Pathname()
	case 7:
		return u.Search()
	}
	return u.Hash()
}

// VerifC05SetSame: after two calls from the value lists (protocol, host, pathname - the ones that
// change how a value is read), every setter is called with its own current getter value: the
// standard re-runs the setter's parse in the new context (e.g. a first segment C| after a switch to file).
func VerifC05SetSame() {
	starts := []string{"http://h/C|/x", "http://u:p@h:8/p?q#f", "file:///C:/d", "a://u@h:8/p?q#f", "a:b ?q#f", "a:/.//p", "http://h/p", "a://h/C|"}
	u, mu, ok := startBoth(starts[vnd.Pick(len(starts))])
	if !ok {
		return
	}
	ops := []int{0, 3, 6}
	for i := 0; i < 2; i++ {
		op := ops[vnd.Pick(len(ops))]
		vals := setterValues[op]
		stepBoth(u, mu, op, vals[vnd.Pick(len(vals))])
	}
	op := vnd.Pick(9)
	stepBoth(u, mu, op, currentValue(u, op))
}

// modelOfRecord: the reference model's record with the same components as u.
func modelOfRecord(u *Url) *model.URL {
	mu := &model.URL{Scheme: u.scheme, Username: u.username, Password: u.password}
	if u.host != nil {
		mu.HasHost = true
		mu.Host = *u.host
	}
	if u.port != nil {
		mu.HasPort = true
		mu.Port = decimalValue(*u.port)
	}
	if u.path.isOpaque() {
		mu.Opaque = true
		mu.OpaquePath = u.path.p[0]
	} else {
		mu.Path = append([]string{}, u.path.p...)
	}
	if u.query != nil {
		mu.HasQuery = true
		mu.Query = *u.query
	}
	if u.fragment != nil {
		mu.HasFragment = true
		mu.Fragment = *u.fragment
	}
	return mu
}

// VerifC05SetStep: one inductive differential step. Implementation and model start from the SAME
// arbitrary record of the small shapes of C04's InvStep (assumed to satisfy the invariant); one setter
// with a window argument must leave them in agreement. With InvStep this extends C05 to setter
// sequences of any length over records of that size. A disagreement is reported only if the pre-state
// is reachable through the public API (it is the parse of its own serialization, for both sides).
func VerifC05SetStep() {
	pre := symbolicRecord()
	vnd.Assume(invHoldsViolation(pre, defaultSchemeTable) == "")
	mu := modelOfRecord(pre)
	href := pre.Href(false)
	if mu.Href(false) != href {
		return // the two records are not the same state (cannot happen for records satisfying the invariant)
	}
	op := vnd.Pick(9)
	arg := vnd.Str(vnd.Len(vnd.Param("C05.KStep", 1, 2)))
	applySetter(pre, opSetterNames[op], arg)
	applyModelSetter(mu, op, arg)
	if verifCheckSnap(snapImpl(pre, nil), snapModel(mu, true)) == "" {
		return
	}
	// confirm through the public API
	u, err := Parse(href)
	m2, ok := model.Parse(href, nil)
	if err != nil || !ok || u.Href(false) != href || m2.Href(false) != href {
		vnd.Cover("unconfirmed-inductive", true)
		return
	}
	vnd.Observe("pre", href)
	stepBoth(u, m2, op, arg)
	vnd.Cover("unconfirmed-inductive", true)
}

// VerifC05SetSymStart: symbolic start URL (context + short window), one setter from the value lists.
func VerifC05SetSymStart() {
	ci := vnd.Pick(len(ctxAbs))
	w := vnd.Str(vnd.Len(vnd.Param("C05.KStart", 1, 2)))
	u, mu, ok := startBoth(ctxAbs[ci].pre + w + ctxAbs[ci].suf)
	if !ok {
		return
	}
	op := vnd.Pick(9)
	vals := setterValues[op]
	stepBoth(u, mu, op, vals[vnd.Pick(len(vals))])
}

func init() {
	verifHarnesses["VerifC05SetOne"] = VerifC05SetOne
	verifHarnesses["VerifC05SetStep"] = VerifC05SetStep
	verifHarnesses["VerifC05SetSame"] = VerifC05SetSame
	verifHarnesses["VerifC05SetOneSigma"] = VerifC05SetOneSigma
	verifHarnesses["VerifC05SetSeq2"] = VerifC05SetSeq2
	verifHarnesses["VerifC05SetSeq3"] = VerifC05SetSeq3
	verifHarnesses["VerifC05SetSymStart"] = VerifC05SetSymStart
}
