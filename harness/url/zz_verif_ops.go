//go:build verif

package url

import "github.com/nlnwa/whatwg-url/internal/vnd"

// symbolicParser returns a parser whose boolean options are symbolic (each forks only
// on the paths that read it) and whose non-boolean options are picked from the values
// the predefined profiles use. Fields are set directly (the With… constructors are the
// subject of C16).
func symbolicParser() *parser {
	p := NewParser().(*parser)
	p.opts.reportValidationErrors = vnd.Bool()
	p.opts.failOnValidationError = vnd.Bool()
	p.opts.laxHostParsing = vnd.Bool()
	p.opts.collapseConsecutiveSlashes = vnd.Bool()
	p.opts.acceptInvalidCodepoints = vnd.Bool()
	p.opts.percentEncodeSinglePercentSign = vnd.Bool()
	p.opts.skipWindowsDriveLetterNormalization = vnd.Bool()
	p.opts.skipTrailingSlashNormalization = vnd.Bool()
	p.opts.skipEqualsForEmptySearchParamsValue = vnd.Bool()
	p.opts.allowSettingPathForNonBaseUrl = vnd.Bool()
	return p
}

// schemeTables: special-scheme tables a user can configure with WithSpecialSchemes: the default one,
// one with gopher added (as the Semantic profile does), and one without file and ftp.
func schemeTable(which int) map[string]string {
	switch which {
	case 1:
		return map[string]string{"ftp": "21", "file": "", "http": "80", "https": "443", "ws": "80", "wss": "443", "gopher": "70"}
	case 2:
		return map[string]string{"http": "80", "https": "443", "ws": "80", "wss": "443"}
	}
	return defaultSpecialSchemes
}

var opSetterNames = []string{"protocol", "username", "password", "host", "hostname", "port", "pathname", "search", "hash"}

const (
	opResolve = 9 + iota
	opClone
	opSPAppend
	opSPDelete
	opSPSet
	opSPSort
	opSPSortAbs
	opSPRead
	opCount
)

// applyOp applies operation op (0..8 = the nine setters, then resolve, clone and the
// search-parameter operations) and returns the URL to continue with.
func applyOp(u *Url, op int, arg string) *Url {
	if op < 9 {
		applySetter(u, opSetterNames[op], arg)
		return u
	}
	switch op {
	case opResolve:
		r, err := u.Parse(arg)
		if err != nil {
			return u
		}
		if r == nil {
			vnd.Fail("resolve returned nil url and nil error")
		}
		return r
	case opClone:
		return u.Clone()
	case opSPAppend:
		u.SearchParams().Append(arg, "v")
	case opSPDelete:
		u.SearchParams().Delete(arg)
	case opSPSet:
		u.SearchParams().Set(arg, "w")
	case opSPSort:
		u.SearchParams().Sort()
	case opSPSortAbs:
		u.SearchParams().SortAbsolute()
	case opSPRead:
		sp := u.SearchParams()
		_ = sp.Get(arg)
		_ = sp.Has(arg)
		_ = sp.GetAll(arg)
		_ = sp.String()
	}
	return u
}

// touch calls every getter (they must work on any URL a parse returns).
func touch(u *Url) {
	_ = u.Href(false)
	_ = u.Href(true)
	_ = u.String()
	_ = u.Protocol()
	_ = u.Scheme()
	_ = u.Username()
	_ = u.Password()
	_ = u.Host()
	_ = u.Hostname()
	_ = u.Port()
	_ = u.DecodedPort()
	_ = u.Pathname()
	_ = u.OpaquePath()
	_ = u.Search()
	_ = u.Query()
	_ = u.Hash()
	_ = u.Fragment()
	_ = u.IsIPv4()
	_ = u.IsIPv6()
	_ = u.IsSpecialScheme()
	_ = u.ValidationErrors()
	_ = u.SearchParams().String()
	c := u.Clone()
	_ = c.Href(false)
}

// setter start URLs (DESIGN.md Appendix C).
var startURLs = []string{
	// the first eight are the diverse subset used where a quick tier cannot afford all of them
	"http://u:p@h:8/p?q#f", "file:///C:/d", "a://u@h:8/p?q#f", "a:b ?q#f", "a:/.//p", "file://h/d", "a://:s@h/p", "a:  ?q#f",
	"http://h/p?q#f", "https://h:80/", "ws://h", "http://1.2.3.4/", "http://[::1]:8/",
	"a://h/p", "a://", "a:/p", "a:b", "a:b  #f", "a:b  ?#f",
}

// Concrete value lists for the non-final calls of a history (DESIGN.md Appendix C):
// chosen to toggle every guard of the setter algorithms.
var setterValues = [][]string{
	{"file", "http", "https", "ws", "a", "b:", "", "1"},          // protocol
	{"", "u", ":@/"},                                               // username
	{"", "p", ":@/"},                                               // password
	{"", "x", "x:9", "x:80", "1.2.3.4", "[::1]", "x/y", ":9"},      // host
	{"", "x", "1.2.3.4", "[::1]", "x/y", "x:9"},                    // hostname
	{"", "0", "8", "80", "443", "65536", "8x"},                     // port
	{"", "/", "x", "//x", "/..", "C|", "?"},                        // pathname
	{"", "?", "a=1", "?a b", "a='b"},                               // search
	{"", "#", "f"},                                                 // hash
}

// history applies `depth` setter calls to u: all but the last take a value from the
// concrete lists, the last takes a symbolic window of 0..k bytes. It reports whether a
// protocol-setter call changed the scheme to "file" (the standard's own non-round-trip
// state, C03).
func history(u *Url, depth int, k int) (switchedToFile bool) {
	for i := 0; i < depth; i++ {
		op := vnd.Pick(9)
		var arg string
		if i == depth-1 {
			arg = vnd.Str(vnd.Len(k))
		} else {
			vals := setterValues[op]
			arg = vals[vnd.Pick(len(vals))]
		}
		before := u.scheme
		applySetter(u, opSetterNames[op], arg)
		if op == 0 && before != "file" && u.scheme == "file" {
			switchedToFile = true
		}
	}
	return
}
