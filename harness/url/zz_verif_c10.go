//go:build verif

package url

import "github.com/nlnwa/whatwg-url/internal/vnd"

// ---- the standard's percent-encode sets as range predicates (URL Standard, "percent-encoded bytes") ----

func specC0Set(r rune) bool { return r < 0x20 || r > 0x7E }
func specFragmentSet(r rune) bool {
	return specC0Set(r) || r == 0x20 || r == 0x22 || r == 0x3C || r == 0x3E || r == 0x60
}
func specQuerySet(r rune) bool {
	return specC0Set(r) || r == 0x20 || r == 0x22 || r == 0x23 || r == 0x3C || r == 0x3E
}
func specSpecialQuerySet(r rune) bool { return specQuerySet(r) || r == 0x27 }
func specPathSet(r rune) bool {
	return specQuerySet(r) || r == 0x3F || r == 0x60 || r == 0x7B || r == 0x7D
}
func specUserinfoSet(r rune) bool {
	return specPathSet(r) || r == 0x2F || r == 0x3A || r == 0x3B || r == 0x3D || r == 0x40 ||
		(r >= 0x5B && r <= 0x5E) || r == 0x7C
}

func specSet(which int, r rune) bool {
	switch which {
	case 0:
		return specC0Set(r)
	case 1:
		return specFragmentSet(r)
	case 2:
		return specQuerySet(r)
	case 3:
		return specSpecialQuerySet(r)
	case 4:
		return specPathSet(r)
	}
	return specUserinfoSet(r)
}

func namedSet(which int) *PercentEncodeSet {
	switch which {
	case 0:
		return C0PercentEncodeSet
	case 1:
		return FragmentPercentEncodeSet
	case 2:
		return QueryPercentEncodeSet
	case 3:
		return SpecialQueryPercentEncodeSet
	case 4:
		return PathPercentEncodeSet
	}
	return UserInfoPercentEncodeSet
}

func hexUp(n byte) byte {
	if n < 10 {
		return '0' + n
	}
	return 'A' + n - 10
}

// specEncodeRune: UTF-8 percent-encode a scalar value given whether it is in the set.
func specEncodeRune(r rune, in bool) string {
	bs := []byte(string(r))
	if !in {
		return string(bs)
	}
	out := make([]byte, 0, 12)
	for i := 0; i < len(bs); i++ {
		out = append(out, '%', hexUp(bs[i]>>4), hexUp(bs[i]&15))
	}
	return string(out)
}

func isScalar(r rune) bool { return (r >= 0 && r <= 0xD7FF) || (r >= 0xE000 && r <= 0x10FFFF) }

// VerifC10SetTables: every named set equals the standard's set for ALL 2^32 rune values
// and all 256 byte values (one obligation per set and accessor; the symbolic domain is the whole domain).
func VerifC10SetTables() {
	which := vnd.Pick(6)
	s := namedSet(which)
	r := rune(vnd.U32())
	if s.RuneShouldBeEncoded(r) != specSet(which, r) {
		vnd.Fail("RuneShouldBeEncoded differs from the standard's set")
	}
	b := vnd.Byte()
	if s.ByteShouldBeEncoded(b) != specSet(which, rune(b)) {
		vnd.Fail("ByteShouldBeEncoded differs from the standard's set")
	}
	vnd.Cover("in-set", s.RuneShouldBeEncoded(r))
	vnd.Cover("not-in-set", !s.RuneShouldBeEncoded(r))
}

// VerifC10Derive: Set/Clear return a set that differs exactly at the given code point
// and leave the set they were derived from unchanged.
func VerifC10Derive() {
	which := vnd.Pick(6)
	s := namedSet(which)
	b := vnd.Byte()
	vnd.Assume(b < 0x80)
	r := rune(vnd.U32())
	clear := vnd.Pick(2) == 1
	var d *PercentEncodeSet
	if clear {
		d = s.Clear(uint(b))
	} else {
		d = s.Set(uint(b))
	}
	// parent unchanged
	if s.RuneShouldBeEncoded(r) != specSet(which, r) {
		vnd.Fail("deriving a set modified its parent")
	}
	want := specSet(which, r)
	if r == rune(b) {
		// Set adds b; Clear removes it unless it is covered by the range part (C0 / >0x7E)
		if clear {
			want = r < s.allBelow || r > 0x7E
		} else {
			want = true
		}
	}
	if d.RuneShouldBeEncoded(r) != want {
		vnd.Fail("derived set is not parent +/- the code point")
	}
	vnd.Cover("derived-differs", d.RuneShouldBeEncoded(r) != s.RuneShouldBeEncoded(r))
}

// VerifC10EncodeRune: the code point encoder against the standard's definition, all scalar values.
func VerifC10EncodeRune() {
	which := vnd.Pick(6)
	s := namedSet(which)
	r := rune(vnd.U32())
	vnd.Assume(isScalar(r))
	p := defaultParser.(*parser)
	got := p.percentEncodeRune(r, s)
	want := specEncodeRune(r, specSet(which, r))
	vnd.Observe("enc", got)
	if got != want {
		vnd.Fail("percentEncodeRune differs from UTF-8 percent-encode")
	}
}

func specEncodeString(which int, extraPercent bool, s string) string {
	out := ""
	for _, r := range s {
		in := specSet(which, r) || (extraPercent && r == '%')
		out += specEncodeRune(r, in)
	}
	return out
}

// VerifC10Codec: string-level laws on windows of K bytes (any bytes, so invalid UTF-8,
// '%', hex digits and multi-byte code points all occur).
func VerifC10Codec() {
	which := vnd.Pick(6)
	withPercent := vnd.Pick(2) == 1
	set := namedSet(which)
	if withPercent {
		set = set.Set('%')
	}
	k := vnd.Len(vnd.Param("C10.K", 3, 4))
	s := vnd.Str(k)
	p := defaultParser.(*parser)
	enc := p.PercentEncodeString(s, set)
	vnd.Observe("enc", enc)
	want := specEncodeString(which, withPercent, s)
	if enc != want {
		vnd.Fail("PercentEncodeString: not the code-point-wise UTF-8 percent-encoding")
	}
	if p.PercentEncodeString(enc, set) != enc && !withPercent {
		vnd.Fail("PercentEncodeString is not idempotent")
	}
	dec := p.DecodePercentEncoded(enc)
	vnd.Observe("dec", dec)
	if withPercent {
		// '%' is in the set: decoding inverts encoding (on scalar-value strings)
		if dec != string([]rune(s)) {
			vnd.Fail("decode(encode(s)) != s although '%' is in the set")
		}
	} else {
		if dec != p.DecodePercentEncoded(string([]rune(s))) {
			vnd.Fail("decode(encode(s)) != decode(s)")
		}
	}
}

// VerifC10CodecSinglePercent: the string encoder under percent-encode-single-percent-sign: a '%' that
// does not start an escape becomes %25, existing escapes and every other code point are treated as usual.
func VerifC10CodecSinglePercent() {
	which := vnd.Pick(6)
	set := namedSet(which)
	s := vnd.Str(vnd.Len(vnd.Param("C10.KSingle", 3, 4)))
	p := NewParser(WithPercentEncodeSinglePercentSign()).(*parser)
	enc := p.PercentEncodeString(s, set)
	vnd.Observe("enc", enc)
	rs := []rune(s)
	want := ""
	for i, r := range rs {
		if r == '%' {
			isEscape := i+2 < len(rs) && isHexRune(rs[i+1]) && isHexRune(rs[i+2])
			if isEscape {
				want += "%"
			} else {
				want += "%25"
			}
			continue
		}
		want += specEncodeRune(r, specSet(which, r))
	}
	if enc != want {
		vnd.Fail("PercentEncodeString under percent-encode-single-percent-sign: existing escapes must stay, stray '%' become %25")
	}
	if p.PercentEncodeString(enc, set) != enc {
		vnd.Fail("PercentEncodeString under percent-encode-single-percent-sign is not idempotent")
	}
	if p.DecodePercentEncoded(enc) != p.DecodePercentEncoded(string(rs)) {
		vnd.Fail("decode(encode(s)) != decode(s) under percent-encode-single-percent-sign")
	}
}

// VerifC10ParseSinglePercent: the parser states apply the same "existing escapes stay untouched, a
// stray '%' is data" rule as the string encoder: '%' followed by two ARBITRARY code points (all of
// Unicode, symbolic) in a special path, a non-special path, an opaque path, a query and a fragment,
// with and without the percent-encode-single-percent-sign option. Only '%' + two ASCII hex digits is
// an escape; with the option a stray '%' in a path or opaque path becomes %25, everywhere else and
// without the option it is copied.
func VerifC10ParseSinglePercent() {
	r1 := rune(vnd.U32())
	r2 := rune(vnd.U32())
	vnd.Assume(isScalar(r1) && isScalar(r2))
	// code points with a syntactic role at this position are other properties' business
	for _, r := range []rune{r1, r2} {
		vnd.Assume(r != '/' && r != '\\' && r != '?' && r != '#' && r != '\t' && r != '\n' && r != '\r' && r != '%')
	}
	vnd.Assume(!(r1 == '2' && (r2 == 'e' || r2 == 'E'))) // %2e is a dot segment
	ctx := vnd.Pick(5)
	pre := []string{"http://h/", "a://h/", "a:", "http://h/?", "http://h/#"}[ctx]
	which := []int{4, 4, 0, 3, 1}[ctx]
	single := vnd.Bool()
	var p Parser
	if single {
		p = NewParser(WithPercentEncodeSinglePercentSign())
	} else {
		p = NewParser()
	}
	u, err := p.Parse(pre + "%" + string(r1) + string(r2) + "z")
	if err != nil {
		vnd.Fail("a '%' followed by two code points in a path/query/fragment must not make parsing fail")
		return
	}
	var got string
	switch ctx {
	case 0, 1:
		got = u.Pathname()[1:]
	case 2:
		got = u.Pathname()
	case 3:
		got = u.Query()
	default:
		got = u.Fragment()
	}
	vnd.Observe("got", got)
	isEscape := isHexRune(r1) && isHexRune(r2)
	vnd.Cover("escape-kept", isEscape)
	vnd.Cover("stray-percent-nonascii", !isEscape && r1 > 0x7f)
	want := "%"
	if single && !isEscape && ctx <= 2 {
		want = "%25"
	}
	want += specEncodeRune(r1, specSet(which, r1)) + specEncodeRune(r2, specSet(which, r2)) + "z"
	if got != want {
		vnd.Fail("parser state: '%' + two code points: existing escapes must stay, a stray '%' is data (copied, or %25 under percent-encode-single-percent-sign in paths)")
	}
}

func isHexRune(r rune) bool {
	return (r >= '0' && r <= '9') || (r >= 'a' && r <= 'f') || (r >= 'A' && r <= 'F')
}

func init() {
	verifHarnesses["VerifC10CodecSinglePercent"] = VerifC10CodecSinglePercent
	verifHarnesses["VerifC10ParseSinglePercent"] = VerifC10ParseSinglePercent
	verifHarnesses["VerifC10SetTables"] = VerifC10SetTables
	verifHarnesses["VerifC10Derive"] = VerifC10Derive
	verifHarnesses["VerifC10EncodeRune"] = VerifC10EncodeRune
	verifHarnesses["VerifC10Codec"] = VerifC10Codec
}
