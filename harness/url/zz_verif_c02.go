//go:build verif

package url

import "github.com/nlnwa/whatwg-url/internal/vnd"

// VerifC02TotalParseAbs: any parser configuration x context ▸ full-byte window ▸ suffix, no base.
// Decided: no reachable Go panic, termination within the step budget, URL-or-error contract,
// every getter works on a returned URL.
func VerifC02TotalParseAbs() {
	p := symbolicParser()
	ci := vnd.Pick(len(ctxAbs))
	w := vnd.Str(vnd.Len(vnd.Param("C02.KAbs", 2, 3)))
	u, err := p.Parse(ctxAbs[ci].pre + w + ctxAbs[ci].suf)
	if err == nil && u == nil {
		vnd.Fail("Parse returned neither a URL nor an error")
	}
	vnd.Cover("accepted", err == nil)
	vnd.Cover("rejected", err != nil)
	if err == nil {
		touch(u)
	}
}

// VerifC02TotalParseRel: the same for resolution against every base shape, through all three entry points.
func VerifC02TotalParseRel() {
	p := symbolicParser()
	bi := vnd.Pick(len(bases))
	ri := vnd.Pick(len(refCtx))
	w := vnd.Str(vnd.Len(vnd.Param("C02.KRel", 1, 2)))
	ref := refCtx[ri].pre + w + refCtx[ri].suf
	u, err := p.ParseRef(bases[bi], ref)
	if err == nil && u == nil {
		vnd.Fail("ParseRef returned neither a URL nor an error")
	}
	if err == nil {
		touch(u)
	}
	b, berr := p.Parse(bases[bi])
	if berr == nil {
		u2, err2 := b.Parse(ref)
		if err2 == nil && u2 == nil {
			vnd.Fail("(*Url).Parse returned neither a URL nor an error")
		}
		if err2 == nil {
			touch(u2)
		}
	}
}

// VerifC02TotalSymBase: a symbolic base (context + window) under any configuration, concrete references.
func VerifC02TotalSymBase() {
	p := symbolicParser()
	ci := vnd.Pick(len(ctxAbs))
	ri := vnd.Pick(len(refs))
	w := vnd.Str(vnd.Len(vnd.Param("C02.KBase", 1, 2)))
	u, err := p.ParseRef(ctxAbs[ci].pre+w+ctxAbs[ci].suf, refs[ri])
	if err == nil && u == nil {
		vnd.Fail("ParseRef returned neither a URL nor an error")
	}
	if err == nil {
		touch(u)
	}
}

// VerifC02TotalOps: histories of operations with window arguments after a successful parse.
func VerifC02TotalOps() {
	p := symbolicParser()
	si := vnd.Pick(len(startURLs))
	u, err := p.Parse(startURLs[si])
	if err != nil {
		return
	}
	depth := vnd.Param("C02.OpsDepth", 1, 2)
	for i := 0; i < depth; i++ {
		op := vnd.Pick(opCount)
		arg := vnd.Str(vnd.Len(vnd.Param("C02.KOps", 1, 2)))
		u = applyOp(u, op, arg)
		if u == nil {
			vnd.Fail("operation lost the URL")
		}
	}
	touch(u)
}

func init() {
	verifHarnesses["VerifC02TotalParseAbs"] = VerifC02TotalParseAbs
	verifHarnesses["VerifC02TotalParseRel"] = VerifC02TotalParseRel
	verifHarnesses["VerifC02TotalSymBase"] = VerifC02TotalSymBase
	verifHarnesses["VerifC02TotalOps"] = VerifC02TotalOps
}
