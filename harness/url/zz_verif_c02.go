//go:build verif

package url

import "github.com/nlnwa/whatwg-url/internal/vnd"

// VerifC02TotalParseAbs: any parser configuration x context ▸ full-byte window ▸ suffix, no base.
// Decided: no reachable Go panic, termination within the step budget, URL-or-error contract,
// every getter works on a returned URL.
func VerifC02TotalParseAbs() {
	p := symbolicParser()
	ci := vnd.Pick(len(ctxAbs))
	w := vnd.Str(vnd.Len(vnd.Param("C02.KAbs", 2, 3)))
	u, err := p.Parse(ctxAbs[ci].pre + w + ctxAbs[ci].suf)
	if err == nil && u == nil {
		vnd.Fail("Parse returned neither a URL nor an error")
	}
	vnd.Cover("accepted", err == nil)
	vnd.Cover("rejected", err != nil)
	if err == nil {
		touch(u)
	}
}

// VerifC02TotalParseRel: the same for resolution against every base shape, through all three entry points.
func VerifC02TotalParseRel() {
	p := symbolicParser()
	bi := vnd.Pick(len(bases))
	ri := vnd.Pick(len(refCtx))
	w := vnd.Str(vnd.Len(vnd.Param("C02.KRel", 1, 2)))
	ref := refCtx[ri].pre + w + refCtx[ri].suf
	u, err := p.ParseRef(bases[bi], ref)
	if err == nil && u == nil {
		vnd.Fail("ParseRef returned neither a URL nor an error")
	}
	if err == nil {
		touch(u)
	}
	b, berr := p.Parse(bases[bi])
	if berr == nil {
		u2, err2 := b.Parse(ref)
		if err2 == nil && u2 == nil {
			vnd.Fail("(*Url).Parse returned neither a URL nor an error")
		}
		if err2 == nil {
			touch(u2)
		}
	}
}

// VerifC02TotalSymBase: a symbolic base (context + window) under any configuration, concrete references.
func VerifC02TotalSymBase() {
	p := symbolicParser()
	ci := vnd.Pick(len(ctxAbs))
	ri := vnd.Pick(len(refs))
	w := vnd.Str(vnd.Len(vnd.Param("C02.KBase", 1, 2)))
	u, err := p.ParseRef(ctxAbs[ci].pre+w+ctxAbs[ci].suf, refs[ri])
	if err == nil && u == nil {
		vnd.Fail("ParseRef returned neither a URL nor an error")
	}
	if err == nil {
		touch(u)
	}
}

// VerifC02TotalOps: histories of operations with window arguments after a successful parse.
func VerifC02TotalOps() {
	p := symbolicParser()
	si := vnd.Pick(len(startURLs))
	u, err := p.Parse(startURLs[si])
	if err != nil {
		return
	}
	depth := vnd.Param("C02.OpsDepth", 1, 1)
	for i := 0; i < depth; i++ {
		op := vnd.Pick(opCount)
		arg := vnd.Str(vnd.Len(vnd.Param("C02.KOps", 1, 2)))
		u = applyOp(u, op, arg)
		if u == nil {
			vnd.Fail("operation lost the URL")
		}
	}
	touch(u)
}

// VerifC02TotalOps2: two-step histories where the first step creates or empties lazily
// created state (search parameters, cleared query/fragment, clone) and the second is any
// operation with a window argument.
func VerifC02TotalOps2() {
	p := symbolicParser()
	starts := []string{"http://h/p", "http://h/p?a=1&b=2#f", "a:b ?q#f", "file:///C:/d"}
	u, err := p.Parse(starts[vnd.Pick(len(starts))])
	if err != nil {
		return
	}
	switch vnd.Pick(6) {
	case 0:
		_ = u.SearchParams().String()
	case 1:
		u.SearchParams().Sort()
	case 2:
		u.SetSearch("")
	case 3:
		u.SetSearch("x=1")
		u.SetSearch("")
	case 4:
		u = u.Clone()
	case 5:
		u.SetHash("")
		u.SetPathname("")
	}
	op := vnd.Pick(opCount)
	arg := vnd.Str(vnd.Len(vnd.Param("C02.KOps2", 1, 2)))
	u = applyOp(u, op, arg)
	touch(u)
}

// VerifC02TotalSchemeTables: configured special-scheme tables (default, +gopher, without file/ftp) x
// two setter calls from the concrete value lists (protocol, host, hostname, port, pathname) on every
// start URL: the state one setter leaves for the next under a different notion of "special".
func VerifC02TotalSchemeTables() {
	p := symbolicParser()
	p.opts.specialSchemes = schemeTable(vnd.Pick(3))
	starts := []string{"a:b", "a://h/p", "file:///C:/d", "file://h/d", "http://u:p@h:8/p?q#f", "gopher://h:70/p", "ftp://h/", "a:/p"}
	u, err := p.Parse(starts[vnd.Pick(len(starts))])
	if err != nil {
		return
	}
	ops := []int{0, 3, 4, 5, 6}
	for i := 0; i < 2; i++ {
		op := ops[vnd.Pick(len(ops))]
		vals := setterValues[op]
		applySetter(u, opSetterNames[op], vals[vnd.Pick(len(vals))])
	}
	touch(u)
}

var ipv4Shapes = []ctx{{"1.2.3.", ""}, {"1.2.3.4.", ""}, {"0x", ".1"}, {"1.", ".3.4"}, {"", ".0.0.1"}, {"4294967", ""}, {"0xffffff", ""}, {"1.2.", ""}}

// VerifC02TotalHosts: long address shapes (where index arithmetic lives) with a symbolic window,
// as URL hosts and as host/hostname setter values, under any configuration.
func VerifC02TotalHosts() {
	p := symbolicParser()
	var host string
	w := vnd.StrOver(vnd.Len(vnd.Param("C02.KHosts", 2, 3)), "019afAFg:.x[]%")
	if vnd.Pick(2) == 0 {
		c := ipv6Ctxs[vnd.Pick(len(ipv6Ctxs))]
		host = "[" + c.pre + w + c.suf + "]"
	} else {
		c := ipv4Shapes[vnd.Pick(len(ipv4Shapes))]
		host = c.pre + w + c.suf
	}
	switch vnd.Pick(4) {
	case 0:
		u, err := p.Parse("http://" + host + "/")
		if err == nil {
			touch(u)
		}
	case 1:
		u, err := p.Parse("a://" + host + "/")
		if err == nil {
			touch(u)
		}
	case 2:
		u, err := p.Parse("http://h/")
		if err == nil {
			u.SetHost(host)
			touch(u)
		}
	case 3:
		u, err := p.Parse("a://h/")
		if err == nil {
			u.SetHostname(host)
			touch(u)
		}
	}
}

// VerifC02StaleHandles: a SearchParams handle stays usable whatever happens to the URL it came from:
// after the URL got another parameter object (SetSearchParams with a clone, with another URL's object,
// with a fresh clone of a clone), after its query was cleared or replaced, after it was cloned or used
// as a base - every method of the old handle, of the new one and of clones of both returns normally.
func VerifC02StaleHandles() {
	p := symbolicParser()
	starts := []string{"http://h/p?a=1&b=2#f", "http://h/p", "a:b?x=y", "file:///C:/d?q"}
	u, err := p.Parse(starts[vnd.Pick(len(starts))])
	if err != nil {
		return
	}
	old := u.SearchParams()
	if vnd.Bool() {
		old.Append("k", "v")
	}
	switch vnd.Pick(7) {
	case 0:
		u.SetSearchParams(old.Clone())
	case 1:
		o, oerr := p.Parse("http://x/?y=1")
		if oerr == nil {
			u.SetSearchParams(o.SearchParams())
		}
	case 2:
		u.SetSearchParams(old.Clone().Clone())
	case 3:
		u.SetSearch("")
	case 4:
		u.SetSearch("n=1&m")
	case 5:
		c := u.Clone()
		c.SearchParams().Append("c", "1")
	case 6:
		r, rerr := u.Parse("?z")
		if rerr == nil {
			r.SearchParams().Sort()
		}
	}
	vnd.Cover("stale-handle-used", true)
	op := vnd.Pick(8)
	for _, h := range []*SearchParams{old, u.SearchParams(), old.Clone(), u.SearchParams().Clone()} {
		switch op {
		case 0:
			_ = h.String()
		case 1:
			h.Append("x", "1")
		case 2:
			h.Set("k", "2")
		case 3:
			h.Delete("a")
		case 4:
			h.Sort()
			h.SortAbsolute()
		case 5:
			_ = h.Has("a")
			_ = h.Get("k")
			_ = h.GetAll("b")
		case 6:
			h.Iterate(func(p *NameValuePair) { p.Value = p.Value + "!" })
		case 7:
			_ = h.Clone().String()
		}
	}
	_ = u.Href(false)
	_ = old.String()
	_ = u.SearchParams().String()
}

func init() {
	verifHarnesses["VerifC02StaleHandles"] = VerifC02StaleHandles
	verifHarnesses["VerifC02TotalHosts"] = VerifC02TotalHosts
	verifHarnesses["VerifC02TotalSchemeTables"] = VerifC02TotalSchemeTables
	verifHarnesses["VerifC02TotalOps2"] = VerifC02TotalOps2
	verifHarnesses["VerifC02TotalParseAbs"] = VerifC02TotalParseAbs
	verifHarnesses["VerifC02TotalParseRel"] = VerifC02TotalParseRel
	verifHarnesses["VerifC02TotalSymBase"] = VerifC02TotalSymBase
	verifHarnesses["VerifC02TotalOps"] = VerifC02TotalOps
}

// VerifC02SortBytes: Sort and SortAbsolute return normally on lists whose names and values hold
// arbitrary bytes (invalid UTF-8 included) after equal prefixes; the URL serializes afterwards.
func VerifC02SortBytes() {
	k := vnd.Param("C02.KSortBytes", 2, 2)
	pre := []string{"", "a", "caf"}[vnd.Pick(3)]
	n1 := pre + vnd.Str(vnd.Len(k))
	n2 := pre + vnd.Str(vnd.Len(k))
	u, err := Parse("http://h/?x=1")
	if err != nil {
		return
	}
	sp := u.SearchParams()
	sp.Append(n1, "1")
	sp.Append(n2, n1)
	if vnd.Bool() {
		sp.Sort()
	} else {
		sp.SortAbsolute()
	}
	vnd.Cover("sorted-bytes", true)
	_ = u.Href(false)
	_ = sp.String()
}

func init() { verifHarnesses["VerifC02SortBytes"] = VerifC02SortBytes }
