#!/bin/sh
# Build the symbolic executor from /verif/engine (offline) and validate it:
# the repository's WPT vectors through the interpreter, and the IDNA stub contract against the real library.
set -e
export GOFLAGS=-mod=mod GOPROXY=off GOSUMDB=off GOTOOLCHAIN=local
cd /verif/engine
mkdir -p /verif/bin /verif/evidence /verif/replays
go build -o /verif/bin/gosymex .
echo "gosymex built"
if [ -z "$VERIF_SKIP_SELFTEST" ]; then
  /verif/bin/gosymex selftest | tail -4
fi
