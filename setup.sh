#!/bin/sh
# Build the symbolic executor from /verif/engine, offline.
set -e
export GOFLAGS=-mod=mod GOPROXY=off GOSUMDB=off GOTOOLCHAIN=local
cd /verif/engine
mkdir -p /verif/bin
go build -o /verif/bin/gosymex .
echo "gosymex built"
