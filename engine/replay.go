package main

// Native replay: the harness sources are compiled into the real package's test
// binary through a build overlay (nothing is written to /repo) and executed on
// the solver's witnesses.

import (
	"go/ast"
	"go/build"
	"go/parser"
	"go/token"
	"sort"
	"bufio"
	"bytes"
	"encoding/json"
	"fmt"
	"os"
	"os/exec"
	"path/filepath"
	"strings"
	"time"
)

type ReplayRecord struct {
	Property string   `json:"property,omitempty"`
	Harness  string   `json:"harness"` // short function name (registry key)
	Pkg      string   `json:"pkg"`     // url | canonicalizer
	Values   []ndItem `json:"values"`
	Expect   string   `json:"expect,omitempty"` // ok | fail | panic | budget | write
	Msg      string   `json:"msg,omitempty"`
	Observed []string `json:"observed,omitempty"`
	Tier     string   `json:"tier,omitempty"`
}

type NativeOutcome struct {
	I        int      `json:"i"`
	Harness  string   `json:"harness"`
	Outcome  string   `json:"outcome"`
	Msg      string   `json:"msg"`
	Observed []string `json:"observed"`
	Failed   []string `json:"failed"`
	Knowns   []string `json:"knowns"`
	Covered  []string `json:"covered"`
}

type NativeRunner struct {
	repo    string
	tmp     string
	bins    map[string]string // pkg(+race) -> test binary
	buildS  float64
	runS    float64
	runs    int
}

func NewNativeRunner(repo string) (*NativeRunner, error) {
	tmp, err := os.MkdirTemp("", "gosymex-replay-")
	if err != nil {
		return nil, err
	}
	return &NativeRunner{repo: repo, tmp: tmp, bins: map[string]string{}}, nil
}

func (n *NativeRunner) Close() { os.RemoveAll(n.tmp) }

func (n *NativeRunner) binary(pkg string, race bool) (string, error) {
	key := pkg
	if race {
		key += "+race"
	}
	if b, ok := n.bins[key]; ok {
		return b, nil
	}
	t0 := time.Now()
	ov, err := overlayMap(n.repo, true)
	if err != nil {
		return "", err
	}
	// one generated file per package under test: registers the address of every package-level
	// variable (read from the package's CURRENT source) for the native state fingerprint
	for _, gp := range []string{"url", "canonicalizer"} {
		src, gerr := globalsFile(n.repo, gp, ov)
		if gerr != nil {
			return "", gerr
		}
		gpath := filepath.Join(n.tmp, "zz_verif_globals_"+gp+".go")
		if err := os.WriteFile(gpath, []byte(src), 0o644); err != nil {
			return "", err
		}
		ov[filepath.Join(n.repo, gp, "zz_verif_globals_gen.go")] = gpath
	}
	ovJSON, _ := json.Marshal(map[string]interface{}{"Replace": ov})
	ovPath := filepath.Join(n.tmp, "overlay.json")
	if err := os.WriteFile(ovPath, ovJSON, 0o644); err != nil {
		return "", err
	}
	bin := filepath.Join(n.tmp, strings.ReplaceAll(key, "+", "_")+".test")
	args := []string{"test", "-c", "-vet=off", "-tags", "verif", "-overlay", ovPath, "-o", bin}
	if race {
		args = append(args, "-race")
	}
	args = append(args, "./"+pkg)
	cmd := exec.Command("go", args...)
	cmd.Dir = n.repo
	cmd.Env = goEnv()
	out, err := cmd.CombinedOutput()
	if err != nil {
		return "", fmt.Errorf("native build of %s failed: %v\n%s", pkg, err, out)
	}
	n.bins[key] = bin
	n.buildS += time.Since(t0).Seconds()
	return bin, nil
}

// Run replays the records (all of the same package) natively.
func (n *NativeRunner) Run(pkg string, recs []ReplayRecord, race bool, timeoutS int) ([]NativeOutcome, error) {
	if len(recs) == 0 {
		return nil, nil
	}
	bin, err := n.binary(pkg, race)
	if err != nil {
		return nil, err
	}
	t0 := time.Now()
	defer func() { n.runS += time.Since(t0).Seconds(); n.runs += len(recs) }()
	outs := make([]NativeOutcome, len(recs))
	for i := range outs {
		outs[i] = NativeOutcome{I: i, Outcome: "norun"}
	}
	start := 0
	for start < len(recs) {
		var buf bytes.Buffer
		for _, r := range recs[start:] {
			js, _ := json.Marshal(map[string]interface{}{"harness": r.Harness, "values": r.Values})
			buf.Write(js)
			buf.WriteByte('\n')
		}
		batch := filepath.Join(n.tmp, fmt.Sprintf("batch-%d.jsonl", start))
		if err := os.WriteFile(batch, buf.Bytes(), 0o644); err != nil {
			return nil, err
		}
		cmd := exec.Command(bin, "-test.run", "^TestVerifReplay$", "-test.v", "-test.timeout", "30m")
		cmd.Dir = filepath.Join(n.repo, pkg)
		cmd.Env = append(os.Environ(), "VERIF_REPLAY_BATCH="+batch, fmt.Sprintf("VERIF_REPLAY_TIMEOUT_S=%d", timeoutS))
		out, _ := cmd.CombinedOutput()
		sc := bufio.NewScanner(bytes.NewReader(out))
		sc.Buffer(make([]byte, 1<<20), 1<<26)
		last := -1
		raceSeen := false
		for sc.Scan() {
			line := sc.Text()
			if strings.Contains(line, "WARNING: DATA RACE") {
				raceSeen = true
			}
			if !strings.HasPrefix(line, "REPLAY ") {
				continue
			}
			var o NativeOutcome
			if err := json.Unmarshal([]byte(line[7:]), &o); err != nil {
				continue
			}
			idx := start + o.I
			if idx < len(outs) {
				o.I = idx
				if raceSeen && race {
					o.Outcome = "race"
					raceSeen = false
				}
				outs[idx] = o
				last = idx
			}
		}
		if raceSeen && race && last >= 0 {
			outs[last].Outcome = "race"
		}
		if last < 0 {
			// nothing came back: the process died on the first record
			outs[start] = NativeOutcome{I: start, Outcome: "crash", Msg: tail(string(out), 600)}
			start++
			continue
		}
		if outs[last].Outcome == "hang" || last+1 < len(recs) {
			// hang stops the batch; a crash after `last` kills the process
			if outs[last].Outcome != "hang" && last+1 < len(recs) {
				outs[last+1] = NativeOutcome{I: last + 1, Outcome: "crash", Msg: tail(string(out), 600)}
				start = last + 2
				continue
			}
			start = last + 1
			continue
		}
		break
	}
	return outs, nil
}

func tail(s string, n int) string {
	if len(s) <= n {
		return s
	}
	return s[len(s)-n:]
}

func pkgOfHarness(h string) (pkg, fn string) {
	p := strings.SplitN(h, ".", 2)
	return p[0], p[1]
}

func recordFromPath(prop, tier string, r PathResult) ReplayRecord {
	pkg, fn := pkgOfHarness(r.Harness)
	exp := "ok"
	switch r.End {
	case endFail:
		exp = "fail"
	case endPanic:
		exp = "panic"
	case endBudget:
		exp = "hang"
	case endWrite:
		exp = "write"
	}
	return ReplayRecord{Property: prop, Harness: fn, Pkg: pkg, Values: r.Nondet, Expect: exp, Msg: r.Msg, Observed: r.Observes, Tier: tier}
}

func cmdReplay(args []string) int {
	if len(args) < 1 {
		usage()
	}
	b, err := os.ReadFile(args[0])
	if err != nil {
		fmt.Fprintln(os.Stderr, err)
		return 2
	}
	var rec ReplayRecord
	if err := json.Unmarshal(b, &rec); err != nil {
		fmt.Fprintln(os.Stderr, err)
		return 2
	}
	n, err := NewNativeRunner(repoDir())
	if err != nil {
		fmt.Fprintln(os.Stderr, err)
		return 2
	}
	defer n.Close()
	race := rec.Expect == "write"
	outs, err := n.Run(rec.Pkg, []ReplayRecord{rec}, race, 20)
	if err != nil {
		fmt.Fprintln(os.Stderr, err)
		return 2
	}
	o := outs[0]
	fmt.Printf("replay %s: inputs %s\n  native outcome=%s msg=%q\n  observed=%v\n", rec.Harness, fmtNondet(rec.Values), o.Outcome, o.Msg, fmtObs(o.Observed))
	if o.Outcome == "ok" {
		fmt.Println("  property holds on this input")
		return 0
	}
	if o.Outcome == "fail" || o.Outcome == "panic" || o.Outcome == "hang" || o.Outcome == "race" {
		fmt.Printf("VIOLATION property=%s replay=%s\n", rec.Property, args[0])
		return 1
	}
	return 2
}


// globalsFile lists the package-level variables of /repo/<pkg> (non-test files that build under the
// verif tag, harness overlay files excluded) and returns the source of a file registering them.
func globalsFile(repo, pkg string, ov map[string]string) (string, error) {
	dir := filepath.Join(repo, pkg)
	ents, err := os.ReadDir(dir)
	if err != nil {
		return "", err
	}
	ctx := build.Default
	ctx.BuildTags = append(ctx.BuildTags, "verif")
	var names []string
	pkgName := pkg
	fset := token.NewFileSet()
	for _, e := range ents {
		nm := e.Name()
		if e.IsDir() || !strings.HasSuffix(nm, ".go") || strings.HasSuffix(nm, "_test.go") || strings.HasPrefix(nm, "zz_verif") {
			continue
		}
		if ok, _ := ctx.MatchFile(dir, nm); !ok {
			continue
		}
		f, perr := parser.ParseFile(fset, filepath.Join(dir, nm), nil, 0)
		if perr != nil {
			return "", perr
		}
		pkgName = f.Name.Name
		for _, d := range f.Decls {
			gd, ok := d.(*ast.GenDecl)
			if !ok || gd.Tok != token.VAR {
				continue
			}
			for _, sp := range gd.Specs {
				for _, id := range sp.(*ast.ValueSpec).Names {
					if id.Name != "_" {
						names = append(names, id.Name)
					}
				}
			}
		}
	}
	sort.Strings(names)
	var b strings.Builder
	b.WriteString("//go:build verif\n\npackage " + pkgName + "\n\nimport \"github.com/nlnwa/whatwg-url/internal/vnd\"\n\nfunc init() {\n\tvnd.RegisterGlobals(\"" + pkg + "\", []vnd.Global{\n")
	for _, nm := range names {
		fmt.Fprintf(&b, "\t\t{Name: %q, Ptr: &%s},\n", nm, nm)
	}
	b.WriteString("\t})\n}\n")
	return b.String(), nil
}
