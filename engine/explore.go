package main

import (
	"fmt"
	"os"
	"sort"
	"strings"
	"sync"
	"time"

	"golang.org/x/tools/go/ssa"
)

type PathResult struct {
	Harness  string
	End      endKind
	Msg      string
	Nondet   []ndItem // concretised
	Observes []string // name=hex, evaluated under the witness
	Covers   []string
	Knowns   []string
	Steps    int
	Depth    int // number of decisions
	PCSize   int
}

type HarnessReport struct {
	Name       string
	Paths      int
	ByEnd      map[string]int
	Fails      []PathResult // failures (endFail / endPanic / endBudget / endWrite), capped
	FailCount  int
	Unsupp     []string
	Samples    []PathResult // sampled OK paths (for translation validation)
	Covers     map[string]bool
	KnownHits  map[string]int
	MaxSteps   int
	MaxDepth   int
	Truncated  bool
	WallS      float64
}

type Explorer struct {
	l        *Loaded
	opts     Options
	solver   string
	workers  int
	maxPaths int
	seed     int64
	sampleN  int
	verbose  bool

	mu      sync.Mutex
	cond    *sync.Cond
	queue   []WorkItem
	active  int
	stopped bool
	rep     *HarnessReport
	npaths  int
}

type workerState struct {
	m *Machine
}

func (e *Explorer) newMachine() (*Machine, error) {
	m, err := NewMachine(e.l.prog, e.solver, e.opts)
	if err != nil {
		return nil, err
	}
	if err := m.runInits(e.l); err != nil {
		return nil, err
	}
	return m, nil
}

func findHarness(l *Loaded, name string) (*ssa.Function, error) {
	// name = "<pkgshort>.<Func>", pkgshort in {url, canonicalizer}
	parts := strings.SplitN(name, ".", 2)
	if len(parts) != 2 {
		return nil, fmt.Errorf("harness name %q must be pkg.Func", name)
	}
	p := l.pkgs[modPath+"/"+parts[0]]
	if p == nil {
		return nil, fmt.Errorf("package %s not loaded", parts[0])
	}
	fn := p.Func(parts[1])
	if fn == nil {
		return nil, fmt.Errorf("harness function %s not found", name)
	}
	return fn, nil
}

// Run explores all paths of one harness.
func (e *Explorer) Run(machines []*Machine, name string) (*HarnessReport, error) {
	fn, err := findHarness(e.l, name)
	if err != nil {
		return nil, err
	}
	if strings.HasPrefix(name, "canonicalizer.") {
		for _, m := range machines {
			if err := m.ensureInit(e.l, modPath+"/canonicalizer"); err != nil {
				return nil, err
			}
		}
	}
	t0 := time.Now()
	e.rep = &HarnessReport{Name: name, ByEnd: map[string]int{}, Covers: map[string]bool{}, KnownHits: map[string]int{}}
	e.queue = []WorkItem{{}}
	e.active = 0
	e.stopped = false
	e.npaths = 0
	e.cond = sync.NewCond(&e.mu)
	var wg sync.WaitGroup
	for _, m := range machines {
		wg.Add(1)
		m.sharedCovered = func(n string) bool {
			e.mu.Lock()
			defer e.mu.Unlock()
			return e.rep.Covers[n]
		}
		go func(m *Machine) {
			defer wg.Done()
			e.worker(m, fn, name)
		}(m)
	}
	wg.Wait()
	e.rep.WallS = time.Since(t0).Seconds()
	return e.rep, nil
}

func (e *Explorer) worker(m *Machine, fn *ssa.Function, name string) {
	for {
		e.mu.Lock()
		for len(e.queue) == 0 && e.active > 0 && !e.stopped {
			e.cond.Wait()
		}
		if e.stopped || (len(e.queue) == 0 && e.active == 0) {
			e.cond.Broadcast()
			e.mu.Unlock()
			return
		}
		item := e.queue[len(e.queue)-1]
		e.queue = e.queue[:len(e.queue)-1]
		e.active++
		e.mu.Unlock()

		res, sibs := m.runPath(fn, name, item)

		e.mu.Lock()
		e.active--
		e.queue = append(e.queue, sibs...)
		e.record(res)
		if e.maxPaths > 0 && e.npaths >= e.maxPaths {
			e.stopped = true
			e.rep.Truncated = len(e.queue) > 0 || e.active > 0
		}
		e.cond.Broadcast()
		e.mu.Unlock()
	}
}

func (e *Explorer) record(r PathResult) {
	rep := e.rep
	e.npaths++
	rep.Paths++
	rep.ByEnd[r.End.String()]++
	if r.Steps > rep.MaxSteps {
		rep.MaxSteps = r.Steps
	}
	if r.Depth > rep.MaxDepth {
		rep.MaxDepth = r.Depth
	}
	for _, c := range r.Covers {
		rep.Covers[c] = true
	}
	switch r.End {
	case endFail, endPanic, endBudget, endWrite:
		rep.FailCount++
		for _, k := range r.Knowns {
			rep.KnownHits[k]++
		}
		if len(rep.Fails) < 400 {
			rep.Fails = append(rep.Fails, r)
		}
	case endUnsupported:
		if len(rep.Unsupp) < 20 {
			rep.Unsupp = append(rep.Unsupp, r.Msg)
		}
	case endOK:
		// reservoir-ish sampling: keep the first sampleN, then replace pseudo-randomly
		if len(rep.Samples) < e.sampleN {
			rep.Samples = append(rep.Samples, r)
		} else if e.sampleN > 0 {
			h := uint64(e.seed)*6364136223846793005 + uint64(rep.Paths)*1442695040888963407
			h ^= h >> 29
			if int(h%uint64(rep.Paths)) < e.sampleN {
				rep.Samples[int(h>>8)%e.sampleN] = r
			}
		}
	}
	if e.verbose && rep.Paths%2000 == 0 {
		fmt.Fprintf(os.Stderr, "  [%s] paths=%d queue=%d fails=%d\n", rep.Name, rep.Paths, len(e.queue), rep.FailCount)
	}
}

// runPath executes one path (replaying item.prefix, then exploring forward).
func (m *Machine) runPath(fn *ssa.Function, name string, item WorkItem) (res PathResult, sibs []WorkItem) {
	m.resetPath(item)
	res.Harness = name
	func() {
		defer func() {
			if r := recover(); r != nil {
				switch e := r.(type) {
				case *pathEnd:
					res.End = e.kind
					res.Msg = e.msg
				case *goPanicV:
					res.End = endPanic
					res.Msg = e.msg
				default:
					panic(r)
				}
			}
		}()
		m.callFunction(fn, nil, nil, nil)
		res.End = endOK
	}()
	if res.End == endAbortLocal {
		res.End = endUnsupported
		res.Msg = "local abort escaped: " + res.Msg
	}
	m.local = nil
	res.Steps = m.steps
	res.Depth = len(m.trace)
	res.PCSize = len(m.pc)
	res.Covers = m.covers
	res.Knowns = m.knowns
	// concretise under the witness
	res.Nondet = make([]ndItem, len(m.nondet))
	for i, it := range m.nondet {
		c := ndItem{K: it.K, V: it.V}
		switch it.K {
		case "str":
			c.S = make([]int, len(it.terms))
			for j, t := range it.terms {
				c.S[j] = int(m.st.Eval(t, m.env))
			}
		case "input":
			c.S = it.S
		case "pick", "param":
		default:
			c.V = m.st.Eval(it.terms[0], m.env)
		}
		res.Nondet[i] = c
	}
	for _, o := range m.observes {
		res.Observes = append(res.Observes, o.name+"="+m.concretizeHex(o.val))
	}
	m.stats.paths++
	m.stats.pathsByEnd[res.End.String()]++
	m.stats.steps += int64(m.steps)
	if m.steps > m.stats.maxSteps {
		m.stats.maxSteps = m.steps
	}
	return res, m.siblings
}

func (m *Machine) concretizeHex(v Value) string {
	switch x := v.(type) {
	case StrV:
		var sb strings.Builder
		for _, t := range x.b {
			fmt.Fprintf(&sb, "%02x", m.st.Eval(t, m.env))
		}
		return sb.String()
	case *Term:
		val := m.st.Eval(x, m.env)
		if x.w == 0 {
			return fmt.Sprintf("%x", fmt.Sprintf("%t", val != 0))
		}
		return fmt.Sprintf("%x", fmt.Sprintf("%d", sext(val, x.w)))
	}
	return "?"
}

func sortedKeys(mm map[string]int) []string {
	ks := make([]string, 0, len(mm))
	for k := range mm {
		ks = append(ks, k)
	}
	sort.Strings(ks)
	return ks
}
