package main

// Hash-consed QF_BV term DAG with constant folding, a concrete evaluator and an
// SMT-LIB2 printer. One Store per worker (no locking).

import (
	"fmt"
	"math/bits"
	"strings"
)

type Op uint8

const (
	OpConst Op = iota
	OpVar
	// boolean
	OpNot
	OpAnd
	OpOr
	OpEq  // args same sort (Bool or BV) -> Bool
	OpIte // c ? a : b  (sort of a)
	// bit-vector -> bit-vector
	OpAdd
	OpSub
	OpMul
	OpUDiv
	OpURem
	OpSDiv
	OpSRem
	OpBAnd
	OpBOr
	OpBXor
	OpBNot
	OpNeg
	OpShl
	OpLShr
	OpAShr
	OpZExt    // k = new width
	OpSExt    // k = new width
	OpExtract // k = lo (width = t.w)
	// bit-vector comparisons -> Bool
	OpULt
	OpULe
	OpSLt
	OpSLe
)

var opNames = map[Op]string{
	OpNot: "not", OpAnd: "and", OpOr: "or", OpEq: "=", OpIte: "ite",
	OpAdd: "bvadd", OpSub: "bvsub", OpMul: "bvmul", OpUDiv: "bvudiv", OpURem: "bvurem",
	OpSDiv: "bvsdiv", OpSRem: "bvsrem", OpBAnd: "bvand", OpBOr: "bvor", OpBXor: "bvxor",
	OpBNot: "bvnot", OpNeg: "bvneg", OpShl: "bvshl", OpLShr: "bvlshr", OpAShr: "bvashr",
	OpULt: "bvult", OpULe: "bvule", OpSLt: "bvslt", OpSLe: "bvsle",
}

// Term is a node of the DAG. w == 0 means sort Bool, otherwise (_ BitVec w).
type Term struct {
	id      int32
	op      Op
	w       uint8
	a, b, c *Term
	k       uint64 // const value / var index / ext width / extract lo
	// variable dependency summary: v1,v2 are var indexes (-1 = none); many = more than two.
	v1, v2 int32
	many   bool
}

func (t *Term) IsConst() bool { return t.op == OpConst }
func (t *Term) IsBool() bool  { return t.w == 0 }

type termKey struct {
	op      Op
	w       uint8
	a, b, c int32
	k       uint64
}

type VarInfo struct {
	name string
	w    uint8
	term *Term
}

type Store struct {
	tab   map[termKey]*Term
	terms []*Term
	vars  []VarInfo
	True  *Term
	False *Term
	// evaluator memo
	evGen  uint32
	evTag  []uint32
	evVal  []uint64
}

func NewStore() *Store {
	s := &Store{tab: make(map[termKey]*Term, 1<<14)}
	s.False = s.Const(0, 0)
	s.True = s.Const(0, 1)
	return s
}

func idOf(t *Term) int32 {
	if t == nil {
		return -1
	}
	return t.id
}

func mask(w uint8) uint64 {
	if w == 0 {
		return 1
	}
	if w >= 64 {
		return ^uint64(0)
	}
	return (uint64(1) << w) - 1
}

func (s *Store) mk(op Op, w uint8, a, b, c *Term, k uint64) *Term {
	key := termKey{op, w, idOf(a), idOf(b), idOf(c), k}
	if t, ok := s.tab[key]; ok {
		return t
	}
	t := &Term{id: int32(len(s.terms)), op: op, w: w, a: a, b: b, c: c, k: k, v1: -1, v2: -1}
	if op == OpVar {
		t.v1 = int32(k)
	} else {
		for _, x := range [3]*Term{a, b, c} {
			if x == nil {
				continue
			}
			if x.many {
				t.many = true
			}
			for _, v := range [2]int32{x.v1, x.v2} {
				if v < 0 || v == t.v1 || v == t.v2 {
					continue
				}
				if t.v1 < 0 {
					t.v1 = v
				} else if t.v2 < 0 {
					t.v2 = v
				} else {
					t.many = true
				}
			}
		}
	}
	s.tab[key] = t
	s.terms = append(s.terms, t)
	return t
}

func (s *Store) Const(w uint8, v uint64) *Term {
	return s.mk(OpConst, w, nil, nil, nil, v&mask(w))
}

func (s *Store) Bool(b bool) *Term {
	if b {
		return s.True
	}
	return s.False
}

func (s *Store) NewVar(name string, w uint8) *Term {
	idx := len(s.vars)
	t := s.mk(OpVar, w, nil, nil, nil, uint64(idx))
	s.vars = append(s.vars, VarInfo{name: name, w: w, term: t})
	return t
}

// ---------------------------------------------------------------- booleans

func (s *Store) Not(a *Term) *Term {
	if a.op == OpConst {
		return s.Bool(a.k == 0)
	}
	if a.op == OpNot {
		return a.a
	}
	return s.mk(OpNot, 0, a, nil, nil, 0)
}

func (s *Store) And(a, b *Term) *Term {
	if a.op == OpConst {
		if a.k == 0 {
			return s.False
		}
		return b
	}
	if b.op == OpConst {
		if b.k == 0 {
			return s.False
		}
		return a
	}
	if a == b {
		return a
	}
	if a.id > b.id {
		a, b = b, a
	}
	return s.mk(OpAnd, 0, a, b, nil, 0)
}

func (s *Store) Or(a, b *Term) *Term {
	if a.op == OpConst {
		if a.k != 0 {
			return s.True
		}
		return b
	}
	if b.op == OpConst {
		if b.k != 0 {
			return s.True
		}
		return a
	}
	if a == b {
		return a
	}
	if a.id > b.id {
		a, b = b, a
	}
	return s.mk(OpOr, 0, a, b, nil, 0)
}

func (s *Store) Eq(a, b *Term) *Term {
	if a.w != b.w {
		panic(fmt.Sprintf("Eq width mismatch %d %d", a.w, b.w))
	}
	if a == b {
		return s.True
	}
	if a.op == OpConst && b.op == OpConst {
		return s.Bool(a.k == b.k)
	}
	if a.w == 0 {
		// boolean equality with a constant
		if a.op == OpConst {
			if a.k != 0 {
				return b
			}
			return s.Not(b)
		}
		if b.op == OpConst {
			if b.k != 0 {
				return a
			}
			return s.Not(a)
		}
	}
	// zext(x) == const  -> x == const' or false
	if b.op == OpConst && a.op == OpZExt {
		a, b = b, a
	}
	if a.op == OpConst && b.op == OpZExt {
		inner := b.a
		if a.k > mask(inner.w) {
			return s.False
		}
		return s.Eq(s.Const(inner.w, a.k), inner)
	}
	// ite(c, k1, k2) == k  with constants
	if b.op == OpConst && a.op == OpIte {
		a, b = b, a
	}
	if a.op == OpConst && b.op == OpIte && b.b.op == OpConst && b.c.op == OpConst {
		t1 := b.b.k == a.k
		t2 := b.c.k == a.k
		switch {
		case t1 && t2:
			return s.True
		case t1:
			return b.a
		case t2:
			return s.Not(b.a)
		default:
			return s.False
		}
	}
	if a.id > b.id {
		a, b = b, a
	}
	return s.mk(OpEq, 0, a, b, nil, 0)
}

func (s *Store) Ite(c, a, b *Term) *Term {
	if a.w != b.w {
		panic("Ite width mismatch")
	}
	if c.op == OpConst {
		if c.k != 0 {
			return a
		}
		return b
	}
	if a == b {
		return a
	}
	if a.w == 0 {
		if a.op == OpConst && b.op == OpConst {
			if a.k != 0 { // ite(c, true, false)
				return c
			}
			return s.Not(c)
		}
		if a.op == OpConst {
			if a.k != 0 {
				return s.Or(c, b)
			}
			return s.And(s.Not(c), b)
		}
		if b.op == OpConst {
			if b.k != 0 {
				return s.Or(s.Not(c), a)
			}
			return s.And(c, a)
		}
	}
	if c.op == OpNot {
		return s.mk(OpIte, a.w, c.a, b, a, 0)
	}
	return s.mk(OpIte, a.w, c, a, b, 0)
}

// ---------------------------------------------------------------- bit-vectors

func sext(v uint64, w uint8) int64 {
	if w >= 64 {
		return int64(v)
	}
	sh := 64 - uint(w)
	return int64(v<<sh) >> sh
}

func foldBin(op Op, w uint8, x, y uint64) (uint64, bool) {
	m := mask(w)
	switch op {
	case OpAdd:
		return (x + y) & m, true
	case OpSub:
		return (x - y) & m, true
	case OpMul:
		return (x * y) & m, true
	case OpUDiv:
		if y == 0 {
			return m, true // SMT-LIB semantics
		}
		return (x / y) & m, true
	case OpURem:
		if y == 0 {
			return x, true
		}
		return (x % y) & m, true
	case OpSDiv:
		sx, sy := sext(x, w), sext(y, w)
		if sy == 0 {
			if sx < 0 {
				return 1, true
			}
			return m, true
		}
		if sy == -1 {
			return uint64(-sx) & m, true
		}
		return uint64(sx/sy) & m, true
	case OpSRem:
		sx, sy := sext(x, w), sext(y, w)
		if sy == 0 {
			return x, true
		}
		if sy == -1 {
			return 0, true
		}
		return uint64(sx%sy) & m, true
	case OpBAnd:
		return x & y, true
	case OpBOr:
		return x | y, true
	case OpBXor:
		return x ^ y, true
	case OpShl:
		if y >= uint64(w) {
			return 0, true
		}
		return (x << y) & m, true
	case OpLShr:
		if y >= uint64(w) {
			return 0, true
		}
		return (x >> y) & m, true
	case OpAShr:
		sx := sext(x, w)
		if y >= uint64(w) {
			y = uint64(w) - 1
		}
		return uint64(sx>>y) & m, true
	case OpULt:
		return b2u(x < y), true
	case OpULe:
		return b2u(x <= y), true
	case OpSLt:
		return b2u(sext(x, w) < sext(y, w)), true
	case OpSLe:
		return b2u(sext(x, w) <= sext(y, w)), true
	}
	return 0, false
}

func b2u(b bool) uint64 {
	if b {
		return 1
	}
	return 0
}

func isCmp(op Op) bool { return op == OpULt || op == OpULe || op == OpSLt || op == OpSLe }

// Bin builds a binary bit-vector operation (arithmetic, logic, shift, comparison).
func (s *Store) Bin(op Op, a, b *Term) *Term {
	if a.w != b.w || a.w == 0 {
		panic(fmt.Sprintf("Bin %v width mismatch %d %d", op, a.w, b.w))
	}
	rw := a.w
	if isCmp(op) {
		rw = 0
	}
	if a.op == OpConst && b.op == OpConst {
		v, _ := foldBin(op, a.w, a.k, b.k)
		return s.Const(rw, v)
	}
	m := mask(a.w)
	switch op {
	case OpAdd:
		if a.op == OpConst && a.k == 0 {
			return b
		}
		if b.op == OpConst && b.k == 0 {
			return a
		}
	case OpSub:
		if b.op == OpConst && b.k == 0 {
			return a
		}
		if a == b {
			return s.Const(rw, 0)
		}
	case OpMul:
		if a.op == OpConst && a.k == 1 {
			return b
		}
		if b.op == OpConst && b.k == 1 {
			return a
		}
		if (a.op == OpConst && a.k == 0) || (b.op == OpConst && b.k == 0) {
			return s.Const(rw, 0)
		}
	case OpBAnd:
		if a.op == OpConst && a.k == m {
			return b
		}
		if b.op == OpConst && b.k == m {
			return a
		}
		if (a.op == OpConst && a.k == 0) || (b.op == OpConst && b.k == 0) {
			return s.Const(rw, 0)
		}
		if a == b {
			return a
		}
	case OpBOr, OpBXor:
		if a.op == OpConst && a.k == 0 {
			return b
		}
		if b.op == OpConst && b.k == 0 {
			return a
		}
		if a == b {
			if op == OpBOr {
				return a
			}
			return s.Const(rw, 0)
		}
	case OpShl, OpLShr, OpAShr:
		if b.op == OpConst && b.k == 0 {
			return a
		}
		if b.op == OpConst && b.k >= uint64(a.w) && op != OpAShr {
			return s.Const(rw, 0)
		}
	case OpULt:
		if a == b {
			return s.False
		}
		if b.op == OpConst && b.k == 0 {
			return s.False
		}
		if a.op == OpConst && a.k == m {
			return s.False
		}
	case OpULe:
		if a == b {
			return s.True
		}
		if a.op == OpConst && a.k == 0 {
			return s.True
		}
		if b.op == OpConst && b.k == m {
			return s.True
		}
	case OpSLt:
		if a == b {
			return s.False
		}
	case OpSLe:
		if a == b {
			return s.True
		}
	}
	// Comparisons of zero-extended narrow terms with constants: narrow them.
	if isCmp(op) {
		if r := s.narrowCmp(op, a, b); r != nil {
			return r
		}
	}
	// commutative canonical order
	switch op {
	case OpAdd, OpMul, OpBAnd, OpBOr, OpBXor:
		if a.id > b.id {
			a, b = b, a
		}
	}
	return s.mk(op, rw, a, b, nil, 0)
}

// narrowCmp rewrites cmp(zext(x), const) / cmp(const, zext(x)) to the narrow width
// when the constant fits (or folds when it does not).
func (s *Store) narrowCmp(op Op, a, b *Term) *Term {
	if a.op == OpZExt && b.op == OpConst {
		x := a.a
		mx := mask(x.w)
		kb := b.k
		signedNeg := (op == OpSLt || op == OpSLe) && sext(kb, b.w) < 0
		if signedNeg {
			return s.False // zext(x) >= 0 > k
		}
		if kb > mx {
			return s.True // x <= mx < k
		}
		uop := op
		if op == OpSLt {
			uop = OpULt
		} else if op == OpSLe {
			uop = OpULe
		}
		return s.Bin(uop, x, s.Const(x.w, kb))
	}
	if b.op == OpZExt && a.op == OpConst {
		x := b.a
		mx := mask(x.w)
		ka := a.k
		signedNeg := (op == OpSLt || op == OpSLe) && sext(ka, a.w) < 0
		if signedNeg {
			return s.True
		}
		if ka > mx {
			return s.False
		}
		uop := op
		if op == OpSLt {
			uop = OpULt
		} else if op == OpSLe {
			uop = OpULe
		}
		return s.Bin(uop, s.Const(x.w, ka), x)
	}
	return nil
}

func (s *Store) BNot(a *Term) *Term {
	if a.op == OpConst {
		return s.Const(a.w, ^a.k)
	}
	if a.op == OpBNot {
		return a.a
	}
	return s.mk(OpBNot, a.w, a, nil, nil, 0)
}

func (s *Store) Neg(a *Term) *Term {
	if a.op == OpConst {
		return s.Const(a.w, -a.k)
	}
	return s.mk(OpNeg, a.w, a, nil, nil, 0)
}

func (s *Store) ZExt(a *Term, w uint8) *Term {
	if w == a.w {
		return a
	}
	if w < a.w {
		panic("ZExt narrower")
	}
	if a.op == OpConst {
		return s.Const(w, a.k)
	}
	if a.op == OpZExt {
		return s.ZExt(a.a, w)
	}
	return s.mk(OpZExt, w, a, nil, nil, uint64(w))
}

func (s *Store) SExt(a *Term, w uint8) *Term {
	if w == a.w {
		return a
	}
	if w < a.w {
		panic("SExt narrower")
	}
	if a.op == OpConst {
		return s.Const(w, uint64(sext(a.k, a.w)))
	}
	if a.op == OpZExt { // value is non-negative
		return s.ZExt(a.a, w)
	}
	return s.mk(OpSExt, w, a, nil, nil, uint64(w))
}

// Extract returns bits [lo+w-1 : lo] of a.
func (s *Store) Extract(a *Term, lo uint8, w uint8) *Term {
	if lo == 0 && w == a.w {
		return a
	}
	if a.op == OpConst {
		return s.Const(w, a.k>>lo)
	}
	if lo == 0 && (a.op == OpZExt || a.op == OpSExt) {
		inner := a.a
		if w == inner.w {
			return inner
		}
		if w < inner.w {
			return s.Extract(inner, 0, w)
		}
		if a.op == OpZExt {
			return s.ZExt(inner, w)
		}
		return s.SExt(inner, w)
	}
	if lo == 0 && a.op == OpIte && a.b.op == OpConst && a.c.op == OpConst {
		return s.Ite(a.a, s.Const(w, a.b.k), s.Const(w, a.c.k))
	}
	return s.mk(OpExtract, w, a, nil, nil, uint64(lo))
}

// Trunc = low w bits.
func (s *Store) Trunc(a *Term, w uint8) *Term { return s.Extract(a, 0, w) }

// ---------------------------------------------------------------- evaluation

// Eval evaluates t under env (values indexed by variable index).
func (s *Store) Eval(t *Term, env []uint64) uint64 {
	s.evGen++
	if s.evGen == 0 {
		for i := range s.evTag {
			s.evTag[i] = 0
		}
		s.evGen = 1
	}
	if len(s.evTag) < len(s.terms) {
		n := len(s.terms) + 1024
		nt := make([]uint32, n)
		copy(nt, s.evTag)
		s.evTag = nt
		nv := make([]uint64, n)
		copy(nv, s.evVal)
		s.evVal = nv
	}
	return s.eval(t, env)
}

// EvalCut evaluates t with the given sub-terms forced to the given values.
func (s *Store) EvalCut(t *Term, env []uint64, cuts []*Term, vals []uint64) uint64 {
	s.evGen++
	if s.evGen == 0 {
		for i := range s.evTag {
			s.evTag[i] = 0
		}
		s.evGen = 1
	}
	if len(s.evTag) < len(s.terms) {
		n := len(s.terms) + 1024
		nt := make([]uint32, n)
		copy(nt, s.evTag)
		s.evTag = nt
		nv := make([]uint64, n)
		copy(nv, s.evVal)
		s.evVal = nv
	}
	for i, c := range cuts {
		s.evTag[c.id] = s.evGen
		s.evVal[c.id] = vals[i] & mask(c.w)
	}
	return s.eval(t, env)
}

func (s *Store) eval(t *Term, env []uint64) uint64 {
	switch t.op {
	case OpConst:
		return t.k
	case OpVar:
		if int(t.k) < len(env) {
			return env[t.k] & mask(t.w)
		}
		return 0
	}
	if s.evTag[t.id] == s.evGen {
		return s.evVal[t.id]
	}
	var r uint64
	switch t.op {
	case OpNot:
		r = 1 - s.eval(t.a, env)
	case OpAnd:
		if s.eval(t.a, env) == 0 {
			r = 0
		} else {
			r = s.eval(t.b, env)
		}
	case OpOr:
		if s.eval(t.a, env) != 0 {
			r = 1
		} else {
			r = s.eval(t.b, env)
		}
	case OpEq:
		r = b2u(s.eval(t.a, env) == s.eval(t.b, env))
	case OpIte:
		if s.eval(t.a, env) != 0 {
			r = s.eval(t.b, env)
		} else {
			r = s.eval(t.c, env)
		}
	case OpBNot:
		r = ^s.eval(t.a, env) & mask(t.w)
	case OpNeg:
		r = -s.eval(t.a, env) & mask(t.w)
	case OpZExt:
		r = s.eval(t.a, env)
	case OpSExt:
		r = uint64(sext(s.eval(t.a, env), t.a.w)) & mask(t.w)
	case OpExtract:
		r = (s.eval(t.a, env) >> t.k) & mask(t.w)
	default:
		r, _ = foldBin(t.op, t.a.w, s.eval(t.a, env), s.eval(t.b, env))
	}
	s.evTag[t.id] = s.evGen
	s.evVal[t.id] = r
	return r
}

// ---------------------------------------------------------------- printing

func sortName(w uint8) string {
	if w == 0 {
		return "Bool"
	}
	return fmt.Sprintf("(_ BitVec %d)", w)
}

func constLit(w uint8, v uint64) string {
	if w == 0 {
		if v != 0 {
			return "true"
		}
		return "false"
	}
	if w%4 == 0 {
		return fmt.Sprintf("#x%0*x", int(w/4), v)
	}
	return fmt.Sprintf("#b%0*b", int(w), v)
}

// ref returns how a term is referred to inside another expression.
func termRef(t *Term) string {
	switch t.op {
	case OpConst:
		return constLit(t.w, t.k)
	case OpVar:
		return fmt.Sprintf("v%d", t.k)
	}
	return fmt.Sprintf("t%d", t.id)
}

func termBody(t *Term) string {
	switch t.op {
	case OpZExt:
		return fmt.Sprintf("((_ zero_extend %d) %s)", int(t.w)-int(t.a.w), termRef(t.a))
	case OpSExt:
		return fmt.Sprintf("((_ sign_extend %d) %s)", int(t.w)-int(t.a.w), termRef(t.a))
	case OpExtract:
		return fmt.Sprintf("((_ extract %d %d) %s)", int(t.k)+int(t.w)-1, t.k, termRef(t.a))
	case OpIte:
		return fmt.Sprintf("(ite %s %s %s)", termRef(t.a), termRef(t.b), termRef(t.c))
	case OpNot, OpBNot, OpNeg:
		return fmt.Sprintf("(%s %s)", opNames[t.op], termRef(t.a))
	}
	return fmt.Sprintf("(%s %s %s)", opNames[t.op], termRef(t.a), termRef(t.b))
}

// String renders a term fully inlined (debugging, evidence samples).
func (t *Term) String() string {
	var sb strings.Builder
	t.write(&sb, 0)
	return sb.String()
}

func (t *Term) write(sb *strings.Builder, depth int) {
	if depth > 12 {
		sb.WriteString("…")
		return
	}
	switch t.op {
	case OpConst:
		sb.WriteString(constLit(t.w, t.k))
		return
	case OpVar:
		fmt.Fprintf(sb, "v%d", t.k)
		return
	case OpZExt, OpSExt:
		fmt.Fprintf(sb, "(%s%d ", map[Op]string{OpZExt: "zext", OpSExt: "sext"}[t.op], t.w)
		t.a.write(sb, depth+1)
		sb.WriteString(")")
		return
	case OpExtract:
		fmt.Fprintf(sb, "(extract[%d:%d] ", int(t.k)+int(t.w)-1, t.k)
		t.a.write(sb, depth+1)
		sb.WriteString(")")
		return
	}
	sb.WriteString("(")
	sb.WriteString(opNames[t.op])
	for _, x := range [3]*Term{t.a, t.b, t.c} {
		if x != nil {
			sb.WriteString(" ")
			x.write(sb, depth+1)
		}
	}
	sb.WriteString(")")
}

// size of the DAG below t (for reporting only).
func (s *Store) dagSize(t *Term, seen map[int32]bool) int {
	if t == nil || seen[t.id] {
		return 0
	}
	seen[t.id] = true
	return 1 + s.dagSize(t.a, seen) + s.dagSize(t.b, seen) + s.dagSize(t.c, seen)
}

var _ = bits.Len64
