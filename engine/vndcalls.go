package main

import (
	"fmt"

	"golang.org/x/net/idna"
)

// vndCall implements the engine side of the nondet package internal/vnd.
func (m *Machine) vndCall(name string, args []Value, caller *frame) Value {
	st := m.st
	localOK := map[string]bool{"Observe": true, "ObserveInt": true, "ObserveBool": true}
	if m.local != nil && !localOK[name] {
		panic(&pathEnd{endAbortLocal, "vnd." + name + " inside summary"})
	}
	switch name {
	case "Byte":
		t := m.newInput(8, 0)
		m.nondet = append(m.nondet, ndItem{K: "byte", terms: []*Term{t}})
		return t
	case "Bool":
		t := m.newInput(0, 0)
		m.nondet = append(m.nondet, ndItem{K: "bool", terms: []*Term{t}})
		return t
	case "U16":
		t := m.newInput(16, 0)
		m.nondet = append(m.nondet, ndItem{K: "u16", terms: []*Term{t}})
		return t
	case "U32":
		t := m.newInput(32, 0)
		m.nondet = append(m.nondet, ndItem{K: "u32", terms: []*Term{t}})
		return t
	case "U64":
		t := m.newInput(64, 0)
		m.nondet = append(m.nondet, ndItem{K: "u64", terms: []*Term{t}})
		return t
	case "Str", "StrOver":
		n := m.concreteInt(args[0].(*Term), "vnd.Str length")
		alphabet := ""
		if name == "StrOver" {
			a, ok := args[1].(StrV).concrete()
			if !ok {
				m.unsupported("vnd.StrOver with symbolic alphabet")
			}
			alphabet = a
			if len(a) == 0 && n > 0 {
				panic(&pathEnd{endAssume, "empty alphabet"})
			}
		}
		ts := make([]*Term, n)
		for i := range ts {
			d := uint64(0)
			if alphabet != "" {
				d = uint64(alphabet[0])
			}
			ts[i] = m.newInput(8, d)
		}
		m.nondet = append(m.nondet, ndItem{K: "str", terms: ts})
		if alphabet != "" {
			for _, t := range ts {
				m.assume(m.inCutset(t, alphabet))
			}
		}
		return StrV{ts}
	case "Pick", "Len":
		n := m.concreteInt(args[0].(*Term), "vnd.Pick n")
		if name == "Len" {
			n++
		}
		c := m.forkN(n)
		m.nondet = append(m.nondet, ndItem{K: "pick", V: uint64(c)})
		return st.Const(64, uint64(c))
	case "Param":
		q := m.concreteInt(args[1].(*Term), "vnd.Param quick")
		t := m.concreteInt(args[2].(*Term), "vnd.Param thorough")
		v := q
		if m.opts.tier == "thorough" {
			v = t
		}
		if pn, ok := args[0].(StrV).concrete(); ok {
			if ov, has := paramOverride[pn]; has {
				v = ov
			}
			m.paramsSeen[pn] = v
		}
		m.nondet = append(m.nondet, ndItem{K: "param", V: uint64(v)})
		return st.Const(64, uint64(v))
	case "Input":
		iname, _ := args[0].(StrV).concrete()
		v := m.concreteInputs[iname]
		it := ndItem{K: "input", S: make([]int, len(v))}
		for i := 0; i < len(v); i++ {
			it.S[i] = int(v[i])
		}
		m.nondet = append(m.nondet, it)
		return m.strConst(v)
	case "Assume":
		m.assume(args[0].(*Term))
		return nil
	case "Fail":
		msg, _ := args[0].(StrV).concrete()
		panic(&pathEnd{endFail, msg})
	case "Cover":
		cname, _ := args[0].(StrV).concrete()
		c := args[1].(*Term)
		if c.op == OpConst {
			if c.k != 0 {
				m.covers = append(m.covers, cname)
			}
			return nil
		}
		if m.coveredAlready(cname) {
			return nil
		}
		if m.dpos >= len(m.prefix) && m.st.Eval(c, m.env) != 0 {
			m.covers = append(m.covers, cname)
			return nil
		}
		if m.dpos >= len(m.prefix) {
			if res, _ := m.query(c); res == Sat {
				m.covers = append(m.covers, cname)
			}
		}
		return nil
	case "Observe":
		oname, _ := args[0].(StrV).concrete()
		if m.local == nil {
			m.observes = append(m.observes, obsRec{oname, args[1]})
		}
		return nil
	case "ObserveInt", "ObserveBool":
		oname, _ := args[0].(StrV).concrete()
		if m.local == nil {
			m.observes = append(m.observes, obsRec{oname, args[1]})
		}
		return nil
	case "Known":
		id, _ := args[0].(StrV).concrete()
		if m.branch(args[1].(*Term)) {
			m.knowns = append(m.knowns, id)
		}
		return nil
	case "Concurrently":
		f, ok := args[0].(FuncV)
		if !ok {
			m.unsupported("vnd.Concurrently argument")
		}
		m.epoch++
		m.watchEpoch = m.epoch
		m.watching = true
		m.callValue(f, nil, caller, nil)
		m.lsFinish()
		m.watching = false
		return nil
	case "Epoch":
		m.epoch++
		return st.Const(64, uint64(m.epoch))
	case "WatchWrites":
		on := args[0].(*Term)
		if on.op != OpConst {
			m.unsupported("WatchWrites with symbolic argument")
		}
		if on.k == 0 && m.watching {
			m.lsFinish()
		}
		m.watching = on.k != 0
		m.watchEpoch = m.epoch
		return nil
	case "DomainToASCII":
		// concrete input: the real UTS-46 processing (the same profile options as vnd.go's native
		// implementation); symbolic input is outside the bound
		if cs, ok := args[0].(StrV).concrete(); ok {
			a, err := modelIdnaProfile.ToASCII(cs)
			if err != nil || a == "" {
				return TupleV{m.strConst(""), st.False}
			}
			return TupleV{m.strConst(a), st.True}
		}
		m.stats.outsideIDNA++
		panic(&pathEnd{endOutside, "IDNA: model asked for real UTS-46 processing"})
	}
	m.unsupported("vnd." + name + " is not available under the engine")
	return nil
}

var paramOverride = map[string]int{}

// modelIdnaProfile: exactly vnd.go's idnaProfile (the standard's domain-to-ASCII with beStrict=false).
var modelIdnaProfile = idna.New(
	idna.MapForLookup(),
	idna.BidiRule(),
	idna.VerifyDNSLength(false),
	idna.StrictDomainName(false),
	idna.ValidateLabels(true),
	idna.CheckHyphens(false),
	idna.CheckJoiners(true),
	idna.Transitional(false),
)

func (m *Machine) coveredAlready(name string) bool {
	for _, c := range m.covers {
		if c == name {
			return true
		}
	}
	if m.sharedCovered != nil {
		return m.sharedCovered(name)
	}
	return false
}

var _ = fmt.Sprint
