package main

// Sequential model of sync and sync/atomic, plus an Eraser-style lockset monitor for the C14
// shared-state write monitor.
//
// The engine runs one goroutine. Mutexes therefore never block; what the model keeps is the SET of
// locks held, because vnd.Concurrently stands for "this body runs in any number of goroutines at
// once": a store to a pre-existing object with no lock held is a data-race candidate at once; a
// store with locks held is recorded, and at the end of the observed body every object written
// under locks must have had a common lock held at EVERY access to it (reads included), otherwise
// it is a candidate too. Stores made inside sync.Once.Do, through sync.Map and through sync/atomic
// are synchronised by construction and are not candidates (they still count as modifications of
// process state for the history-independence harnesses, which compare results).

import (
	"go/types"
)

const (
	lsReadNoLock  = 1
	lsWriteLocked = 2
)

type syncModel struct {
	held      map[*Cell]int // mutex cell -> 1 write-held, 2.. read-held count+1
	onceDone  map[*Cell]bool
	maps      map[*Cell]*MapObj
	inOnce    int
	gen       int32
	lsSets    map[*Cell][]*Cell // for cells written under locks: intersection of locksets over all accesses
	lsWritten []*Cell
	// init-time state (persists across paths)
	initOnce map[*Cell]bool
	initMaps map[*Cell]*MapObj
}

type mapSnap struct {
	mo   *MapObj
	keys []Value
	vals []Value
}

func (m *Machine) syncReset() {
	s := &m.syn
	s.gen++
	s.held = map[*Cell]int{}
	s.inOnce = 0
	s.lsSets = nil
	s.lsWritten = s.lsWritten[:0]
	if s.initOnce == nil {
		s.initOnce = map[*Cell]bool{}
		s.initMaps = map[*Cell]*MapObj{}
	}
	if len(s.onceDone) != len(s.initOnce) || s.onceDone == nil {
		s.onceDone = map[*Cell]bool{}
		for k, v := range s.initOnce {
			s.onceDone[k] = v
		}
	}
	if len(s.maps) != len(s.initMaps) || s.maps == nil {
		s.maps = map[*Cell]*MapObj{}
		for k, v := range s.initMaps {
			s.maps[k] = v
		}
	}
	for i := len(m.mapTrail) - 1; i >= 0; i-- {
		t := m.mapTrail[i]
		t.mo.keys, t.mo.vals = t.keys, t.vals
		t.mo.snapGen = 0
	}
	m.mapTrail = m.mapTrail[:0]
}

// syncInitDone freezes the sync state reached by the package initialisers.
func (m *Machine) syncInitDone() {
	s := &m.syn
	s.initOnce = map[*Cell]bool{}
	for k, v := range s.onceDone {
		s.initOnce[k] = v
	}
	s.initMaps = map[*Cell]*MapObj{}
	for k, v := range s.maps {
		s.initMaps[k] = v
	}
}

// mapMutate is called before every mutation of a map object: write monitor and undo trail.
func (m *Machine) mapMutate(mo *MapObj, synchronised bool) {
	if m.local != nil && mo.epoch < m.local.startEpoch {
		panic(&pathEnd{endAbortLocal, "write to pre-existing map in summary"})
	}
	if !synchronised && m.watching && mo.epoch < m.watchEpoch && m.syn.inOnce == 0 {
		panic(&pathEnd{endWrite, "write to pre-existing map"})
	}
	if m.watching && mo.epoch == 0 {
		panic(&pathEnd{endWrite, "synchronised write to a package-level map after initialisation"})
	}
	if mo.epoch == 0 && m.initDone && mo.snapGen != m.syn.gen {
		mo.snapGen = m.syn.gen
		m.mapTrail = append(m.mapTrail, mapSnap{mo, append([]Value(nil), mo.keys...), append([]Value(nil), mo.vals...)})
	}
}

func (m *Machine) syncCell(v Value, what string) *Cell {
	p, ok := v.(PtrV)
	if !ok || p.alts != nil {
		m.unsupported(what + ": receiver")
	}
	if p.c == nil {
		m.goPanic("nil pointer dereference (" + what + ")")
	}
	return p.c
}

// ---- lockset monitor

func (m *Machine) heldSet() []*Cell {
	if len(m.syn.held) == 0 {
		return nil
	}
	out := make([]*Cell, 0, len(m.syn.held))
	for c := range m.syn.held {
		out = append(out, c)
	}
	return out
}

func intersectCells(a, b []*Cell) []*Cell {
	var out []*Cell
	for _, x := range a {
		for _, y := range b {
			if x == y {
				out = append(out, x)
				break
			}
		}
	}
	return out
}

func (m *Machine) lsTouch(c *Cell) {
	if c.lsGen != m.syn.gen {
		c.lsGen = m.syn.gen
		c.lsFlags = 0
	}
}

// lsRead: a load from a pre-existing object while the monitor is on.
func (m *Machine) lsRead(c *Cell) {
	if m.syn.inOnce > 0 {
		return
	}
	m.lsTouch(c)
	if len(m.syn.held) == 0 {
		c.lsFlags |= lsReadNoLock
		return
	}
	if c.lsFlags&lsWriteLocked != 0 {
		m.syn.lsSets[c] = intersectCells(m.syn.lsSets[c], m.heldSet())
	} else {
		// remember the lockset of locked reads too: a later locked write must share a lock with them
		if m.syn.lsSets == nil {
			m.syn.lsSets = map[*Cell][]*Cell{}
		}
		if old, ok := m.syn.lsSets[c]; ok {
			m.syn.lsSets[c] = intersectCells(old, m.heldSet())
		} else {
			m.syn.lsSets[c] = m.heldSet()
		}
	}
}

// lsWrite: a store to a pre-existing object while the monitor is on. Returns false if it is an
// immediate candidate (no lock held).
func (m *Machine) lsWrite(c *Cell) bool {
	if m.syn.inOnce > 0 {
		return true
	}
	if len(m.syn.held) == 0 {
		return false
	}
	m.lsTouch(c)
	if m.syn.lsSets == nil {
		m.syn.lsSets = map[*Cell][]*Cell{}
	}
	if old, ok := m.syn.lsSets[c]; ok {
		m.syn.lsSets[c] = intersectCells(old, m.heldSet())
	} else {
		m.syn.lsSets[c] = m.heldSet()
	}
	if c.lsFlags&lsWriteLocked == 0 {
		c.lsFlags |= lsWriteLocked
		m.syn.lsWritten = append(m.syn.lsWritten, c)
	}
	return true
}

// lsFinish is called when the observed body ends: every object written under locks needs one lock
// common to all its accesses.
func (m *Machine) lsFinish() {
	for _, c := range m.syn.lsWritten {
		if c.lsGen != m.syn.gen {
			continue
		}
		if c.lsFlags&lsReadNoLock != 0 {
			panic(&pathEnd{endWrite, "store under a lock to a pre-existing object that is also read with no lock held"})
		}
		if len(m.syn.lsSets[c]) == 0 {
			panic(&pathEnd{endWrite, "stores/loads of a pre-existing object under different locks (no common lock)"})
		}
	}
	m.syn.lsWritten = m.syn.lsWritten[:0]
	m.syn.lsSets = nil
}

// syncStore stores through a synchronising primitive (atomic, sync.Map internals): not a
// candidate for the write monitor, still undone between paths.
func (m *Machine) syncStore(p PtrV, v Value) {
	if p.c == nil || p.alts != nil {
		m.unsupported("atomic store through nil/symbolic pointer")
	}
	save := m.watching
	if save && p.c.epoch == 0 {
		panic(&pathEnd{endWrite, "atomic store to package-level state after initialisation"})
	}
	m.watching = false
	m.store(p, v)
	m.watching = save
}

// ---- the intrinsics

func (m *Machine) mutexLock(a []Value, read bool, try bool) Value {
	c := m.syncCell(a[0], "mutex")
	h := m.syn.held[c]
	if h == 1 || (!read && h > 1) {
		if try {
			return m.st.False
		}
		panic(&pathEnd{endFail, "deadlock: Lock of a mutex that is already held by the same call chain"})
	}
	if read {
		if h == 0 {
			h = 1
		}
		m.syn.held[c] = h + 1
	} else {
		m.syn.held[c] = 1
	}
	if try {
		return m.st.True
	}
	return nil
}

func (m *Machine) mutexUnlock(a []Value, read bool) Value {
	c := m.syncCell(a[0], "mutex")
	h := m.syn.held[c]
	switch {
	case !read && h == 1:
		delete(m.syn.held, c)
	case read && h > 2:
		m.syn.held[c] = h - 1
	case read && h == 2:
		delete(m.syn.held, c)
	default:
		panic(&pathEnd{endFail, "fatal error: sync: unlock of unlocked mutex"})
	}
	return nil
}

func (m *Machine) syncMapOf(a []Value) *MapObj {
	c := m.syncCell(a[0], "sync.Map")
	mo := m.syn.maps[c]
	if mo == nil {
		mo = &MapObj{epoch: c.epoch}
		m.syn.maps[c] = mo
	}
	return mo
}

func atomicIntrinsics() map[string]intrFn {
	t := map[string]intrFn{}
	for _, ty := range []string{"Int32", "Int64", "Uint32", "Uint64", "Uintptr", "Pointer"} {
		ty := ty
		t["sync/atomic.Load"+ty] = func(m *Machine, a []Value, _ *frame) Value { return m.load(a[0].(PtrV)) }
		t["sync/atomic.Store"+ty] = func(m *Machine, a []Value, _ *frame) Value { m.syncStore(a[0].(PtrV), a[1]); return nil }
		t["sync/atomic.Swap"+ty] = func(m *Machine, a []Value, _ *frame) Value {
			old := m.load(a[0].(PtrV))
			m.syncStore(a[0].(PtrV), a[1])
			return old
		}
		t["sync/atomic.CompareAndSwap"+ty] = func(m *Machine, a []Value, _ *frame) Value {
			cur := m.load(a[0].(PtrV))
			eq := m.valuesEqual(cur, a[1])
			if m.branch(eq) {
				m.syncStore(a[0].(PtrV), a[2])
				return m.st.True
			}
			return m.st.False
		}
		if ty != "Pointer" {
			t["sync/atomic.Add"+ty] = func(m *Machine, a []Value, _ *frame) Value {
				cur := m.load(a[0].(PtrV)).(*Term)
				nv := m.st.Bin(OpAdd, cur, a[1].(*Term))
				m.syncStore(a[0].(PtrV), nv)
				return nv
			}
		}
	}
	return t
}

func init() {
	add := func(name string, f intrFn) { syncIntrinsics[name] = f }
	add("(*sync.Mutex).Lock", func(m *Machine, a []Value, _ *frame) Value { return m.mutexLock(a, false, false) })
	add("(*sync.Mutex).TryLock", func(m *Machine, a []Value, _ *frame) Value { return m.mutexLock(a, false, true) })
	add("(*sync.Mutex).Unlock", func(m *Machine, a []Value, _ *frame) Value { return m.mutexUnlock(a, false) })
	add("(*sync.RWMutex).Lock", func(m *Machine, a []Value, _ *frame) Value { return m.mutexLock(a, false, false) })
	add("(*sync.RWMutex).TryLock", func(m *Machine, a []Value, _ *frame) Value { return m.mutexLock(a, false, true) })
	add("(*sync.RWMutex).Unlock", func(m *Machine, a []Value, _ *frame) Value { return m.mutexUnlock(a, false) })
	add("(*sync.RWMutex).RLock", func(m *Machine, a []Value, _ *frame) Value { return m.mutexLock(a, true, false) })
	add("(*sync.RWMutex).TryRLock", func(m *Machine, a []Value, _ *frame) Value { return m.mutexLock(a, true, true) })
	add("(*sync.RWMutex).RUnlock", func(m *Machine, a []Value, _ *frame) Value { return m.mutexUnlock(a, true) })
	add("(*sync.Once).Do", func(m *Machine, a []Value, caller *frame) Value {
		c := m.syncCell(a[0], "sync.Once")
		if m.syn.onceDone[c] {
			return nil
		}
		if m.local != nil && c.epoch < m.local.startEpoch {
			panic(&pathEnd{endAbortLocal, "sync.Once in summary"})
		}
		// Do marks the Once done when f returns or panics; a recursive Do deadlocks natively
		m.syn.onceDone[c] = true
		f, ok := a[1].(FuncV)
		if !ok {
			m.unsupported("sync.Once.Do argument")
		}
		m.syn.inOnce++
		m.callValue(f, nil, caller, nil)
		m.syn.inOnce--
		return nil
	})
	anyT := types.NewInterfaceType(nil, nil)
	_ = anyT
	add("(*sync.Map).Load", func(m *Machine, a []Value, _ *frame) Value {
		mo := m.syncMapOf(a)
		if i := m.mapFind(mo, a[1]); i >= 0 {
			return TupleV{mo.vals[i], m.st.True}
		}
		return TupleV{IfaceV{}, m.st.False}
	})
	add("(*sync.Map).Store", func(m *Machine, a []Value, _ *frame) Value {
		mo := m.syncMapOf(a)
		i := m.mapFind(mo, a[1])
		m.mapMutate(mo, true)
		if i >= 0 {
			mo.vals[i] = a[2]
		} else {
			mo.keys = append(mo.keys, a[1])
			mo.vals = append(mo.vals, a[2])
		}
		return nil
	})
	add("(*sync.Map).LoadOrStore", func(m *Machine, a []Value, _ *frame) Value {
		mo := m.syncMapOf(a)
		if i := m.mapFind(mo, a[1]); i >= 0 {
			return TupleV{mo.vals[i], m.st.True}
		}
		m.mapMutate(mo, true)
		mo.keys = append(mo.keys, a[1])
		mo.vals = append(mo.vals, a[2])
		return TupleV{a[2], m.st.False}
	})
	del := func(m *Machine, a []Value) (Value, bool) {
		mo := m.syncMapOf(a)
		i := m.mapFind(mo, a[1])
		if i < 0 {
			return IfaceV{}, false
		}
		m.mapMutate(mo, true)
		old := mo.vals[i]
		mo.keys = append(mo.keys[:i:i], mo.keys[i+1:]...)
		mo.vals = append(mo.vals[:i:i], mo.vals[i+1:]...)
		return old, true
	}
	add("(*sync.Map).LoadAndDelete", func(m *Machine, a []Value, _ *frame) Value {
		v, ok := del(m, a)
		return TupleV{v, m.st.Bool(ok)}
	})
	add("(*sync.Map).Delete", func(m *Machine, a []Value, _ *frame) Value { del(m, a); return nil })
	add("(*sync.Map).Swap", func(m *Machine, a []Value, _ *frame) Value {
		mo := m.syncMapOf(a)
		i := m.mapFind(mo, a[1])
		m.mapMutate(mo, true)
		if i >= 0 {
			old := mo.vals[i]
			mo.vals[i] = a[2]
			return TupleV{old, m.st.True}
		}
		mo.keys = append(mo.keys, a[1])
		mo.vals = append(mo.vals, a[2])
		return TupleV{IfaceV{}, m.st.False}
	})
	add("(*sync.Map).Clear", func(m *Machine, a []Value, _ *frame) Value {
		mo := m.syncMapOf(a)
		m.mapMutate(mo, true)
		mo.keys, mo.vals = nil, nil
		return nil
	})
	add("(*sync.Map).Range", func(m *Machine, a []Value, caller *frame) Value {
		mo := m.syncMapOf(a)
		f, ok := a[1].(FuncV)
		if !ok {
			m.unsupported("sync.Map.Range argument")
		}
		// insertion order is one of the orders the real map may produce; code whose result depends on
		// the order is outside what this model can decide
		keys := append([]Value(nil), mo.keys...)
		vals := append([]Value(nil), mo.vals...)
		for i := range keys {
			r := m.callValue(f, []Value{keys[i], vals[i]}, caller, nil)
			if t, ok := r.(*Term); ok {
				if !m.branch(t) {
					break
				}
			}
		}
		return nil
	})
	for k, f := range atomicIntrinsics() {
		add(k, f)
	}
	// sync/atomic.Value: a struct with one interface field; every access is synchronised by construction
	valCell := func(m *Machine, a []Value) *Cell {
		p, ok := a[0].(PtrV)
		if !ok || p.c == nil || len(p.c.kids) < 1 {
			m.unsupported("atomic.Value through nil/symbolic pointer")
		}
		return p.c.kids[0]
	}
	add("(*sync/atomic.Value).Load", func(m *Machine, a []Value, _ *frame) Value { return m.loadCell(valCell(m, a)) })
	add("(*sync/atomic.Value).Store", func(m *Machine, a []Value, _ *frame) Value {
		if iv, ok := a[1].(IfaceV); ok && iv.t == nil {
			m.goPanic("sync/atomic: store of nil value into Value")
		}
		m.syncStore(PtrV{c: valCell(m, a)}, a[1])
		return nil
	})
	add("(*sync/atomic.Value).Swap", func(m *Machine, a []Value, _ *frame) Value {
		c := valCell(m, a)
		old := m.loadCell(c)
		m.syncStore(PtrV{c: c}, a[1])
		return old
	})
}

var syncIntrinsics = map[string]intrFn{}
