package main

import (
	"fmt"
	"go/constant"
	"go/token"
	"go/types"
	"math"
	"strings"

	"golang.org/x/tools/go/ssa"
)

// ---------------------------------------------------------------- path end signals

type endKind int

const (
	endOK endKind = iota
	endFail
	endAssume      // assumption infeasible: path vanishes
	endPanic       // Go runtime panic / explicit panic reached top of harness
	endUnsupported // engine cannot encode something
	endBudget      // step budget exhausted (unwinding assertion)
	endOutside     // outside stated bound (IDNA etc.)
	endWrite       // write monitor hit (C14)
	endAbortLocal  // internal: local (summary) exploration must be abandoned
)

func (k endKind) String() string {
	return [...]string{"ok", "fail", "assume", "panic", "unsupported", "budget", "outside", "write", "abort-local"}[k]
}

type pathEnd struct {
	kind endKind
	msg  string
}

// goPanicV is a Go-level panic of the interpreted program.
type goPanicV struct {
	val Value
	msg string
}

func (m *Machine) unsupported(msg string) {
	panic(&pathEnd{endUnsupported, msg})
}

func (m *Machine) goPanic(msg string) {
	panic(&goPanicV{val: IfaceV{}, msg: msg})
}

// ---------------------------------------------------------------- frames

type fnInfo struct {
	idx   map[ssa.Value]int
	nregs int
	// failBlock[i] = block i contains a call to vnd.Fail
	failBlock []bool
	obligFn   bool // every symbolic branch inside is a property obligation (harness functions named verifCheck*)
	ninstr    int
}

type deferred struct {
	fn   FuncV
	args []Value
	call *ssa.CallCommon
}

type frame struct {
	fn        *ssa.Function
	info      *fnInfo
	regs      []Value
	block     *ssa.BasicBlock
	prev      *ssa.BasicBlock
	defers    []deferred
	panicking *goPanicV
	caller    *frame
}

func (m *Machine) info(fn *ssa.Function) *fnInfo {
	if fi, ok := m.infos[fn]; ok {
		return fi
	}
	fi := &fnInfo{idx: make(map[ssa.Value]int)}
	n := 0
	for _, p := range fn.Params {
		fi.idx[p] = n
		n++
	}
	for _, fv := range fn.FreeVars {
		fi.idx[fv] = n
		n++
	}
	fi.failBlock = make([]bool, len(fn.Blocks))
	fi.obligFn = strings.HasPrefix(fn.Name(), "verifCheck")
	for bi, b := range fn.Blocks {
		for _, ins := range b.Instrs {
			fi.ninstr++
			if v, ok := ins.(ssa.Value); ok {
				fi.idx[v] = n
				n++
			}
			if c, ok := ins.(*ssa.Call); ok {
				if callee := c.Call.StaticCallee(); callee != nil && callee.Pkg != nil &&
					strings.HasSuffix(callee.Pkg.Pkg.Path(), "/internal/vnd") && callee.Name() == "Fail" {
					fi.failBlock[bi] = true
				} else if callee != nil && strings.HasPrefix(callee.Name(), "verifFail") {
					fi.failBlock[bi] = true
				}
			}
		}
	}
	fi.nregs = n
	m.infos[fn] = fi
	return fi
}

func (m *Machine) get(fr *frame, v ssa.Value) Value {
	switch x := v.(type) {
	case *ssa.Const:
		return m.constValue(x)
	case *ssa.Global:
		return PtrV{c: m.globalCell(x)}
	case *ssa.Function:
		return FuncV{fn: x}
	case *ssa.Builtin:
		return FuncV{bi: x}
	}
	i, ok := fr.info.idx[v]
	if !ok {
		panic(fmt.Sprintf("no register for %s in %s", v.Name(), fr.fn))
	}
	return fr.regs[i]
}

func (m *Machine) set(fr *frame, v ssa.Value, val Value) {
	fr.regs[fr.info.idx[v]] = val
}

func (m *Machine) constValue(c *ssa.Const) Value {
	if v, ok := m.consts[c]; ok {
		return v
	}
	var v Value
	t := c.Type()
	if c.Value == nil {
		v = m.zero(t)
	} else if isString(t) {
		v = m.strConst(constant.StringVal(c.Value))
	} else if isFloat(t) {
		f, _ := constant.Float64Val(c.Value)
		v = FloatV{f}
	} else if w, _, ok := intWidth(t); ok {
		if w == 0 {
			v = m.st.Bool(constant.BoolVal(c.Value))
		} else {
			iv := constant.ToInt(c.Value)
			if u, exact := constant.Uint64Val(iv); exact {
				v = m.st.Const(w, u)
			} else if s, exact := constant.Int64Val(iv); exact {
				v = m.st.Const(w, uint64(s))
			} else {
				m.unsupported("const out of range " + c.String())
			}
		}
	} else {
		m.unsupported("const of type " + t.String())
	}
	m.consts[c] = v
	return v
}

func (m *Machine) globalCell(g *ssa.Global) *Cell {
	if c, ok := m.globals[g]; ok {
		return c
	}
	elem := g.Type().(*types.Pointer).Elem()
	var c *Cell
	if g.Pkg != nil && !m.interpPkg(g.Pkg.Pkg.Path()) {
		c = &Cell{epoch: 0, v: OpaqueV{kind: "global", data: g.Pkg.Pkg.Path() + "." + g.Name()}}
	} else {
		save := m.epoch
		m.epoch = 0
		c = m.newCell(elem)
		m.epoch = save
	}
	m.globals[g] = c
	return c
}

// ---------------------------------------------------------------- calls

func (m *Machine) callFunction(fn *ssa.Function, args []Value, env []Value, caller *frame) Value {
	if r, ok := m.intrinsic(fn, args, caller); ok {
		return r
	}
	if fn.Blocks == nil {
		m.unsupported("call to external function without body: " + fn.String())
	}
	if fn.Pkg != nil && !m.interpPkg(fn.Pkg.Pkg.Path()) && !m.allowFn(fn) {
		m.unsupported("call into non-interpreted package: " + fn.String())
	}
	if m.depth > 400 {
		// deeper than anything the code under test does on inputs of this size: unbounded recursion
		panic(&pathEnd{endBudget, "call depth 400 exceeded in " + fn.String() + " (unbounded recursion?)"})
	}
	if m.opts.summaries && m.local == nil {
		if r, ok := m.trySummary(fn, args, env, caller); ok {
			return r
		}
	}
	return m.execFunction(fn, args, env, caller)
}

func (m *Machine) execFunction(fn *ssa.Function, args []Value, env []Value, caller *frame) (ret Value) {
	fi := m.info(fn)
	if !m.fnSeen[fn] {
		m.fnSeen[fn] = true
	}
	fr := &frame{fn: fn, info: fi, regs: make([]Value, fi.nregs), caller: caller}
	if len(args) != len(fn.Params) {
		panic(fmt.Sprintf("arity mismatch calling %s: %d args, %d params", fn, len(args), len(fn.Params)))
	}
	copy(fr.regs, args)
	copy(fr.regs[len(args):], env)
	m.depth++
	if debugReplay {
		m.dbgStack = append(m.dbgStack, fn.String())
	}
	defer func() {
		m.depth--
		if debugReplay {
			m.dbgStack = m.dbgStack[:len(m.dbgStack)-1]
		}
		if r := recover(); r != nil {
			gp, ok := r.(*goPanicV)
			if !ok || (len(fr.defers) == 0) {
				panic(r)
			}
			fr.panicking = gp
			m.runDefers(fr)
			if fr.panicking != nil {
				panic(fr.panicking)
			}
			if fn.Recover != nil {
				m.depth++
				ret = m.run(fr, fn.Recover)
				m.depth--
			} else {
				ret = m.zeroResults(fn)
			}
		}
	}()
	return m.run(fr, fn.Blocks[0])
}

func (m *Machine) zeroResults(fn *ssa.Function) Value {
	res := fn.Signature.Results()
	switch res.Len() {
	case 0:
		return nil
	case 1:
		return m.zero(res.At(0).Type())
	}
	return m.zero(res)
}

func (m *Machine) runDefers(fr *frame) {
	for len(fr.defers) > 0 {
		d := fr.defers[len(fr.defers)-1]
		fr.defers = fr.defers[:len(fr.defers)-1]
		saved := m.recoverable
		m.recoverable = fr
		m.callValue(d.fn, d.args, fr, d.call)
		m.recoverable = saved
	}
}

func (m *Machine) callValue(f FuncV, args []Value, caller *frame, cc *ssa.CallCommon) Value {
	if f.native != nil {
		return f.native(m, args)
	}
	if f.bi != nil {
		return m.builtin(f.bi, args, caller, cc)
	}
	if f.fn == nil {
		m.goPanic("call of nil function")
	}
	return m.callFunction(f.fn, args, f.env, caller)
}

func (m *Machine) doCall(fr *frame, cc *ssa.CallCommon) Value {
	args := make([]Value, 0, len(cc.Args)+1)
	if cc.IsInvoke() {
		recv := m.get(fr, cc.Value)
		iv, ok := recv.(IfaceV)
		if !ok {
			m.unsupported(fmt.Sprintf("invoke on %T", recv))
		}
		if iv.t == nil {
			m.goPanic("invoke on nil interface: " + cc.Method.Name())
		}
		fn := m.lookupMethod(iv.t, cc.Method)
		args = append(args, iv.v)
		for _, a := range cc.Args {
			args = append(args, m.get(fr, a))
		}
		if fn == nil {
			// opaque receiver
			if r, ok := m.opaqueMethod(iv, cc.Method.Name(), args); ok {
				return r
			}
			m.unsupported("no method " + cc.Method.Name() + " on " + iv.t.String())
		}
		return m.callFunction(fn, args, nil, fr)
	}
	for _, a := range cc.Args {
		args = append(args, m.get(fr, a))
	}
	fv, ok := m.get(fr, cc.Value).(FuncV)
	if !ok {
		m.unsupported(fmt.Sprintf("call of %T", m.get(fr, cc.Value)))
	}
	return m.callValue(fv, args, fr, cc)
}

func (m *Machine) lookupMethod(t types.Type, meth *types.Func) *ssa.Function {
	key := methKey{t, meth.Id()}
	if fn, ok := m.methCache[key]; ok {
		return fn
	}
	var fn *ssa.Function
	ms := m.prog.MethodSets.MethodSet(t)
	sel := ms.Lookup(meth.Pkg(), meth.Name())
	if sel != nil {
		fn = m.prog.MethodValue(sel)
	}
	m.methCache[key] = fn
	return fn
}

type methKey struct {
	t  types.Type
	id string
}

// ---------------------------------------------------------------- main loop

func (m *Machine) run(fr *frame, start *ssa.BasicBlock) Value {
	fr.block = start
	for {
		b := fr.block
		var next *ssa.BasicBlock
		for _, ins := range b.Instrs {
			m.steps++
			if m.steps > m.stepBudget {
				panic(&pathEnd{endBudget, fmt.Sprintf("step budget %d exhausted in %s", m.stepBudget, fr.fn)})
			}
			switch x := ins.(type) {
			case *ssa.Phi:
				// phis are evaluated in parallel at block entry
				continue
			case *ssa.DebugRef:
				continue
			case *ssa.If:
				c := m.get(fr, x.Cond).(*Term)
				oblig := fr.info.obligFn || fr.info.failBlock[b.Succs[0].Index] || fr.info.failBlock[b.Succs[1].Index]
				if m.branchAt(c, oblig, x) {
					next = b.Succs[0]
				} else {
					next = b.Succs[1]
				}
			case *ssa.Jump:
				next = b.Succs[0]
			case *ssa.Return:
				if len(fr.defers) > 0 {
					// RunDefers instruction normally precedes; be safe
					m.runDefers(fr)
				}
				switch len(x.Results) {
				case 0:
					return nil
				case 1:
					return m.get(fr, x.Results[0])
				}
				tv := make(TupleV, len(x.Results))
				for i, r := range x.Results {
					tv[i] = m.get(fr, r)
				}
				return tv
			case *ssa.Panic:
				v := m.get(fr, x.X)
				panic(&goPanicV{val: v, msg: "explicit panic: " + m.describe(v)})
			default:
				m.exec(fr, ins)
			}
		}
		if next == nil {
			panic("block without terminator in " + fr.fn.String())
		}
		// parallel phi evaluation
		fr.prev = b
		fr.block = next
		if len(next.Instrs) > 0 {
			if _, ok := next.Instrs[0].(*ssa.Phi); ok {
				pi := -1
				for i, p := range next.Preds {
					if p == b {
						pi = i
						break
					}
				}
				var tmp [8]Value
				vals := tmp[:0]
				for _, ins := range next.Instrs {
					phi, ok := ins.(*ssa.Phi)
					if !ok {
						break
					}
					vals = append(vals, m.get(fr, phi.Edges[pi]))
				}
				for i, ins := range next.Instrs {
					phi, ok := ins.(*ssa.Phi)
					if !ok {
						break
					}
					m.set(fr, phi, vals[i])
				}
			}
		}
	}
}

func (m *Machine) describe(v Value) string {
	switch x := v.(type) {
	case IfaceV:
		if x.t == nil {
			return "nil"
		}
		return x.t.String() + ":" + m.describe(x.v)
	case StrV:
		if s, ok := x.concrete(); ok {
			return fmt.Sprintf("%q", s)
		}
		return fmt.Sprintf("<string len %d>", len(x.b))
	case *Term:
		return x.String()
	}
	return fmt.Sprintf("%T", v)
}

func (m *Machine) exec(fr *frame, ins ssa.Instruction) {
	switch x := ins.(type) {
	case *ssa.Alloc:
		m.set(fr, x, PtrV{c: m.newCell(x.Type().(*types.Pointer).Elem())})
	case *ssa.BinOp:
		m.set(fr, x, m.binop(x.Op, m.get(fr, x.X), m.get(fr, x.Y), x.X.Type(), x.Y.Type()))
	case *ssa.UnOp:
		m.set(fr, x, m.unop(fr, x))
	case *ssa.Call:
		m.set(fr, x, m.doCall(fr, &x.Call))
	case *ssa.ChangeInterface:
		m.set(fr, x, m.get(fr, x.X))
	case *ssa.ChangeType:
		m.set(fr, x, m.get(fr, x.X))
	case *ssa.Convert:
		m.set(fr, x, m.convert(m.get(fr, x.X), x.X.Type(), x.Type()))
	case *ssa.Defer:
		cc := &x.Call
		var fv FuncV
		args := []Value{}
		if cc.IsInvoke() {
			m.unsupported("defer of interface method")
		}
		fv = m.get(fr, cc.Value).(FuncV)
		for _, a := range cc.Args {
			args = append(args, m.get(fr, a))
		}
		fr.defers = append(fr.defers, deferred{fn: fv, args: args, call: cc})
	case *ssa.RunDefers:
		m.runDefers(fr)
	case *ssa.Extract:
		m.set(fr, x, m.get(fr, x.Tuple).(TupleV)[x.Index])
	case *ssa.Field:
		m.set(fr, x, m.get(fr, x.X).(StructV).f[x.Field])
	case *ssa.FieldAddr:
		p := m.get(fr, x.X).(PtrV)
		if p.c == nil {
			m.goPanic("nil pointer dereference (field " + x.String() + " in " + fr.fn.String() + ")")
		}
		m.set(fr, x, PtrV{c: p.c.kids[x.Field]})
	case *ssa.Index:
		m.set(fr, x, m.index(m.get(fr, x.X), m.get(fr, x.Index).(*Term), x.Index.Type()))
	case *ssa.IndexAddr:
		m.set(fr, x, m.indexAddr(m.get(fr, x.X), m.get(fr, x.Index).(*Term), x.Index.Type()))
	case *ssa.Lookup:
		m.set(fr, x, m.lookup(fr, x))
	case *ssa.MakeClosure:
		env := make([]Value, len(x.Bindings))
		for i, b := range x.Bindings {
			env[i] = m.get(fr, b)
		}
		m.set(fr, x, FuncV{fn: x.Fn.(*ssa.Function), env: env})
	case *ssa.MakeInterface:
		m.set(fr, x, IfaceV{t: x.X.Type(), v: m.get(fr, x.X)})
	case *ssa.MakeMap:
		m.set(fr, x, MapV{m: &MapObj{epoch: m.epoch}})
	case *ssa.MakeSlice:
		n := m.concreteInt(m.get(fr, x.Len).(*Term), "make len")
		c := m.concreteInt(m.get(fr, x.Cap).(*Term), "make cap")
		if n < 0 || c < n || c > 1<<20 {
			m.goPanic("makeslice: len out of range")
		}
		elem := under(x.Type()).(*types.Slice).Elem()
		m.set(fr, x, SliceV{arr: m.newArr(elem, c), off: 0, len: n, cap: c})
	case *ssa.MapUpdate:
		m.mapUpdate(m.get(fr, x.Map), m.get(fr, x.Key), m.get(fr, x.Value))
	case *ssa.Next:
		m.set(fr, x, m.next(m.get(fr, x.Iter).(*IterV), x.IsString))
	case *ssa.Range:
		switch v := m.get(fr, x.X).(type) {
		case StrV:
			m.set(fr, x, &IterV{str: v.b})
		case MapV:
			m.mapRangeUsed++
			m.set(fr, x, &IterV{mobj: v.m})
		default:
			m.unsupported(fmt.Sprintf("range over %T", v))
		}
	case *ssa.Slice:
		m.set(fr, x, m.slice(fr, x))
	case *ssa.Store:
		m.store(m.get(fr, x.Addr).(PtrV), m.get(fr, x.Val))
	case *ssa.TypeAssert:
		m.set(fr, x, m.typeAssert(x, m.get(fr, x.X)))
	case *ssa.SliceToArrayPointer:
		m.unsupported("SliceToArrayPointer")
	case *ssa.Go, *ssa.Select, *ssa.Send, *ssa.MakeChan:
		m.unsupported("concurrency instruction " + ins.String())
	default:
		m.unsupported(fmt.Sprintf("instruction %T", ins))
	}
}

// concreteInt returns the concrete signed value of t or forks over feasible values (small).
func (m *Machine) concreteInt(t *Term, what string) int {
	if t.op == OpConst {
		return int(sext(t.k, t.w))
	}
	// fork over feasible concrete values (bounded)
	for v := 0; v <= 64; v++ {
		if m.branch(m.st.Eq(t, m.st.Const(t.w, uint64(v)))) {
			return v
		}
	}
	m.unsupported("symbolic " + what + " with more than 65 feasible values")
	return 0
}

// ---------------------------------------------------------------- operators

func (m *Machine) unop(fr *frame, x *ssa.UnOp) Value {
	v := m.get(fr, x.X)
	switch x.Op {
	case token.MUL:
		p, ok := v.(PtrV)
		if !ok {
			if o, ok := v.(OpaqueV); ok {
				return o
			}
			m.unsupported(fmt.Sprintf("load through %T", v))
		}
		r := m.load(p)
		if x.CommaOk {
			m.unsupported("commaok load")
		}
		return r
	case token.NOT:
		return m.st.Not(v.(*Term))
	case token.SUB:
		if f, ok := v.(FloatV); ok {
			return FloatV{-f.f}
		}
		return m.st.Neg(v.(*Term))
	case token.XOR:
		return m.st.BNot(v.(*Term))
	}
	m.unsupported("unop " + x.Op.String())
	return nil
}

func (m *Machine) binop(op token.Token, a, b Value, ta, tb types.Type) Value {
	switch x := a.(type) {
	case StrV:
		y, ok := b.(StrV)
		if !ok {
			m.unsupported("string binop with non-string")
		}
		switch op {
		case token.ADD:
			nb := make([]*Term, 0, len(x.b)+len(y.b))
			nb = append(nb, x.b...)
			nb = append(nb, y.b...)
			return StrV{nb}
		case token.EQL:
			return m.strEq(x, y)
		case token.NEQ:
			return m.st.Not(m.strEq(x, y))
		case token.LSS:
			return m.strLess(x, y)
		case token.GTR:
			return m.strLess(y, x)
		case token.LEQ:
			return m.st.Not(m.strLess(y, x))
		case token.GEQ:
			return m.st.Not(m.strLess(x, y))
		}
		m.unsupported("string op " + op.String())
	case FloatV:
		y := b.(FloatV)
		switch op {
		case token.ADD:
			return FloatV{x.f + y.f}
		case token.SUB:
			return FloatV{x.f - y.f}
		case token.MUL:
			return FloatV{x.f * y.f}
		case token.QUO:
			return FloatV{x.f / y.f}
		case token.EQL:
			return m.st.Bool(x.f == y.f)
		case token.NEQ:
			return m.st.Bool(x.f != y.f)
		case token.LSS:
			return m.st.Bool(x.f < y.f)
		case token.LEQ:
			return m.st.Bool(x.f <= y.f)
		case token.GTR:
			return m.st.Bool(x.f > y.f)
		case token.GEQ:
			return m.st.Bool(x.f >= y.f)
		}
		m.unsupported("float op " + op.String())
	case *Term:
		y, ok := b.(*Term)
		if !ok {
			m.unsupported(fmt.Sprintf("binop %s of term and %T", op, b))
		}
		return m.intBinop(op, x, y, ta, tb)
	}
	switch op {
	case token.EQL:
		return m.valuesEqual(a, b)
	case token.NEQ:
		return m.st.Not(m.valuesEqual(a, b))
	}
	m.unsupported(fmt.Sprintf("binop %s on %T", op, a))
	return nil
}

func (m *Machine) intBinop(op token.Token, x, y *Term, ta, tb types.Type) Value {
	st := m.st
	if x.w == 0 { // booleans
		switch op {
		case token.EQL:
			return st.Eq(x, y)
		case token.NEQ:
			return st.Not(st.Eq(x, y))
		case token.AND, token.LAND:
			return st.And(x, y)
		case token.OR, token.LOR:
			return st.Or(x, y)
		}
		m.unsupported("bool op " + op.String())
	}
	_, signed, _ := intWidth(ta)
	switch op {
	case token.ADD, token.SUB, token.MUL:
		bop := map[token.Token]Op{token.ADD: OpAdd, token.SUB: OpSub, token.MUL: OpMul}[op]
		full := st.Bin(bop, x, y)
		// width narrowing: when the interval facts show that the exact (non-wrapping) result
		// fits in 31 bits, build the operation at 32 bits. Equal to the full-width operation
		// on every value the path condition admits; much cheaper to bit-blast.
		if x.w == 64 && full.op != OpConst && (x.op != OpConst || y.op != OpConst) {
			ix, iy := m.interval(x, 0), m.interval(y, 0)
			const lim = uint64(1) << 31
			ok := false
			switch op {
			case token.ADD:
				ok = ix.hi < lim && iy.hi < lim && ix.hi+iy.hi < lim
			case token.SUB:
				ok = ix.hi < lim && iy.hi < lim && ix.lo >= iy.hi
			case token.MUL:
				ok = ix.hi < lim && iy.hi < lim && ix.hi*iy.hi < lim
			}
			if ok {
				return st.ZExt(st.Bin(bop, st.Trunc(x, 32), st.Trunc(y, 32)), 64)
			}
		}
		return full
	case token.QUO, token.REM:
		// division by zero panics
		zero := st.Const(y.w, 0)
		if m.branch(st.Eq(y, zero)) {
			m.goPanic("integer divide by zero")
		}
		// narrow the operation when both operands are provably small and non-negative
		// (cheap for the solver; equal to the full-width operation on every value the
		// path condition admits)
		ix, iy := m.interval(x, 0), m.interval(y, 0)
		half := uint64(1) << (x.w - 1)
		if ix.hi < half && iy.hi < half {
			signed = false
			for _, nw := range []uint8{8, 16, 32} {
				if nw < x.w && ix.hi <= mask(nw) && iy.hi <= mask(nw) {
					nx, ny := st.Trunc(x, nw), st.Trunc(y, nw)
					if op == token.QUO {
						return st.ZExt(st.Bin(OpUDiv, nx, ny), x.w)
					}
					return st.ZExt(st.Bin(OpURem, nx, ny), x.w)
				}
			}
		}
		if signed {
			if op == token.QUO {
				return st.Bin(OpSDiv, x, y)
			}
			return st.Bin(OpSRem, x, y)
		}
		if op == token.QUO {
			return st.Bin(OpUDiv, x, y)
		}
		return st.Bin(OpURem, x, y)
	case token.AND:
		return st.Bin(OpBAnd, x, y)
	case token.OR:
		return st.Bin(OpBOr, x, y)
	case token.XOR:
		return st.Bin(OpBXor, x, y)
	case token.AND_NOT:
		return st.Bin(OpBAnd, x, st.BNot(y))
	case token.SHL, token.SHR:
		_, ysigned, _ := intWidth(tb)
		if ysigned {
			neg := st.Bin(OpSLt, y, st.Const(y.w, 0))
			if m.branch(neg) {
				m.goPanic("negative shift amount")
			}
		}
		// bring y to x's width, saturating
		var yy *Term
		if y.w == x.w {
			yy = y
		} else if y.w < x.w {
			yy = st.ZExt(y, x.w)
		} else {
			big := st.Bin(OpULe, st.Const(y.w, uint64(x.w)), y)
			yy = st.Ite(big, st.Const(x.w, uint64(x.w)), st.Trunc(y, x.w))
		}
		if op == token.SHL {
			return st.Bin(OpShl, x, yy)
		}
		if signed {
			return st.Bin(OpAShr, x, yy)
		}
		return st.Bin(OpLShr, x, yy)
	case token.EQL:
		return st.Eq(x, y)
	case token.NEQ:
		return st.Not(st.Eq(x, y))
	case token.LSS:
		if signed {
			return st.Bin(OpSLt, x, y)
		}
		return st.Bin(OpULt, x, y)
	case token.LEQ:
		if signed {
			return st.Bin(OpSLe, x, y)
		}
		return st.Bin(OpULe, x, y)
	case token.GTR:
		if signed {
			return st.Bin(OpSLt, y, x)
		}
		return st.Bin(OpULt, y, x)
	case token.GEQ:
		if signed {
			return st.Bin(OpSLe, y, x)
		}
		return st.Bin(OpULe, y, x)
	}
	m.unsupported("int op " + op.String())
	return nil
}

// ---------------------------------------------------------------- conversions

func (m *Machine) convert(v Value, from, to types.Type) Value {
	uf, ut := under(from), under(to)
	// integer/bool source
	if t, ok := v.(*Term); ok {
		if isString(to) {
			// integer -> string: UTF-8 of the code point
			r := t
			_, signed, _ := intWidth(from)
			if r.w < 32 {
				if signed {
					r = m.st.SExt(r, 32)
				} else {
					r = m.st.ZExt(r, 32)
				}
			} else if r.w > 32 {
				// values outside int32 range are invalid -> U+FFFD
				if r.op == OpConst {
					sv := sext(r.k, r.w)
					if sv < 0 || sv > 0x10FFFF {
						return m.strConst("�")
					}
					r = m.st.Const(32, uint64(sv))
				} else {
					hi := m.st.Extract(r, 32, r.w-32)
					if m.branch(m.st.Not(m.st.Eq(hi, m.st.Const(hi.w, 0)))) {
						return m.strConst("�")
					}
					r = m.st.Trunc(r, 32)
				}
			}
			return StrV{m.runeBytes(r)}
		}
		if isFloat(to) {
			if t.op != OpConst {
				m.unsupported("symbolic int -> float conversion")
			}
			_, signed, _ := intWidth(from)
			if signed {
				return FloatV{float64(sext(t.k, t.w))}
			}
			return FloatV{float64(t.k)}
		}
		w, _, ok := intWidth(to)
		if !ok {
			if b, isB := ut.(*types.Basic); isB && b.Kind() == types.UnsafePointer {
				m.unsupported("conversion to unsafe.Pointer")
			}
			m.unsupported("convert int to " + to.String())
		}
		if w == 0 || t.w == 0 {
			return t
		}
		if w == t.w {
			return t
		}
		if w < t.w {
			return m.st.Trunc(t, w)
		}
		_, signed, _ := intWidth(from)
		if signed {
			return m.st.SExt(t, w)
		}
		return m.st.ZExt(t, w)
	}
	switch x := v.(type) {
	case FloatV:
		if isFloat(to) {
			if b := ut.(*types.Basic); b.Kind() == types.Float32 {
				return FloatV{float64(float32(x.f))}
			}
			return x
		}
		w, signed, ok := intWidth(to)
		if !ok {
			m.unsupported("convert float to " + to.String())
		}
		if signed {
			var iv int64
			if x.f >= math.MaxInt64 || x.f <= math.MinInt64 || x.f != x.f {
				iv = math.MinInt64 // amd64 behaviour
			} else {
				iv = int64(x.f)
			}
			return m.st.Const(w, uint64(iv))
		}
		return m.st.Const(w, uint64(x.f))
	case StrV:
		if sl, ok := ut.(*types.Slice); ok {
			eb, _ := under(sl.Elem()).(*types.Basic)
			if eb != nil && eb.Kind() == types.Uint8 {
				n := len(x.b)
				c := roundupCap(n, 1)
				arr := m.newArr(sl.Elem(), c)
				for i, t := range x.b {
					arr.cells[i].v = t
				}
				return SliceV{arr: arr, len: n, cap: c}
			}
			if eb != nil && eb.Kind() == types.Int32 {
				runes := m.decodeAll(x.b)
				n := len(runes)
				c := roundupCap(n, 4)
				arr := m.newArr(sl.Elem(), c)
				for i, t := range runes {
					arr.cells[i].v = t
				}
				return SliceV{arr: arr, len: n, cap: c}
			}
		}
		if isString(to) {
			return x
		}
	case SliceV:
		if isString(to) {
			sl := uf.(*types.Slice)
			eb, _ := under(sl.Elem()).(*types.Basic)
			if eb != nil && eb.Kind() == types.Uint8 {
				b := make([]*Term, x.len)
				for i := 0; i < x.len; i++ {
					b[i] = m.loadCell(x.arr.cells[x.off+i]).(*Term)
				}
				return StrV{b}
			}
			if eb != nil && eb.Kind() == types.Int32 {
				var b []*Term
				for i := 0; i < x.len; i++ {
					b = append(b, m.runeBytes(m.loadCell(x.arr.cells[x.off+i]).(*Term))...)
				}
				return StrV{b}
			}
		}
	case PtrV:
		if _, ok := ut.(*types.Pointer); ok {
			return x
		}
		if b, ok := ut.(*types.Basic); ok && b.Kind() == types.UnsafePointer {
			m.unsupported("conversion to unsafe.Pointer")
		}
	}
	m.unsupported(fmt.Sprintf("convert %T from %s to %s", v, from, to))
	return nil
}

// ---------------------------------------------------------------- indexing / slicing

// boundsCheck makes sure 0 <= idx < n, forking to a panic path if the violation is feasible.
// Returns true if idx is constant.
func (m *Machine) boundsCheck(idx *Term, signed bool, n int, what string) {
	st := m.st
	if idx.op == OpConst {
		var v int64
		if signed {
			v = sext(idx.k, idx.w)
		} else {
			v = int64(idx.k)
			if idx.k > math.MaxInt64 {
				v = -1
			}
		}
		if v < 0 || v >= int64(n) {
			m.goPanic(fmt.Sprintf("index out of range [%d] with length %d (%s)", v, n, what))
		}
		return
	}
	// cheap upper bound
	if mx := m.interval(idx, 0).hi; mx < uint64(n) && (!signed || mx <= uint64(math.MaxInt64)) {
		return
	}
	inb := st.Bin(OpULt, idx, st.Const(idx.w, uint64(n)))
	if n == 0 {
		inb = st.False
	}
	if !m.obligation(inb) {
		m.goPanic(fmt.Sprintf("index out of range [symbolic] with length %d (%s)", n, what))
	}
}

// maxValue: a cheap sound unsigned upper bound of a term's value.
func maxValue(t *Term) (uint64, bool) {
	switch t.op {
	case OpConst:
		return t.k, true
	case OpVar:
		return mask(t.w), true
	case OpZExt:
		return maxValue(t.a)
	case OpExtract:
		if t.k == 0 {
			if mx, ok := maxValue(t.a); ok && mx <= mask(t.w) {
				return mx, true
			}
		}
		return mask(t.w), true
	case OpLShr:
		if t.b.op == OpConst {
			if mx, ok := maxValue(t.a); ok {
				if t.b.k >= 64 {
					return 0, true
				}
				return mx >> t.b.k, true
			}
		}
	case OpBAnd:
		ma, oka := maxValue(t.a)
		mb, okb := maxValue(t.b)
		if oka && okb {
			if ma < mb {
				return ma, true
			}
			return mb, true
		}
	case OpURem:
		if t.b.op == OpConst && t.b.k > 0 {
			return t.b.k - 1, true
		}
	case OpIte:
		ma, oka := maxValue(t.b)
		mb, okb := maxValue(t.c)
		if oka && okb {
			if ma > mb {
				return ma, true
			}
			return mb, true
		}
	case OpAdd:
		ma, oka := maxValue(t.a)
		mb, okb := maxValue(t.b)
		if oka && okb && ma+mb >= ma && ma+mb <= mask(t.w) {
			return ma + mb, true
		}
	case OpBOr:
		ma, oka := maxValue(t.a)
		mb, okb := maxValue(t.b)
		if oka && okb {
			// next power of two minus one covering both
			mx := ma | mb
			for s := uint(1); s < 64; s <<= 1 {
				mx |= mx >> s
			}
			return mx, true
		}
	}
	if t.w > 0 {
		return mask(t.w), true
	}
	return 1, true
}

func isSignedType(t types.Type) bool {
	_, s, _ := intWidth(t)
	return s
}

func (m *Machine) index(x Value, idx *Term, it types.Type) Value {
	signed := isSignedType(it)
	switch v := x.(type) {
	case StrV:
		m.boundsCheck(idx, signed, len(v.b), "string index")
		if idx.op == OpConst {
			return v.b[idx.k]
		}
		return m.selectTerm(v.b, idx)
	case ArrayV:
		m.boundsCheck(idx, signed, len(v.e), "array index")
		if idx.op == OpConst {
			return v.e[idx.k]
		}
		ts := make([]*Term, len(v.e))
		for i, e := range v.e {
			t, ok := e.(*Term)
			if !ok {
				m.unsupported("symbolic index into array of non-scalars")
			}
			ts[i] = t
		}
		return m.selectTerm(ts, idx)
	}
	m.unsupported(fmt.Sprintf("index of %T", x))
	return nil
}

func (m *Machine) selectTerm(ts []*Term, idx *Term) *Term {
	st := m.st
	// constant tables: compress runs where table[i] - i is constant (e.g. "0123456789ABCDEF" is two
	// runs) into ite(idx in run, idx + delta, ...): far smaller than one ite per element
	allConst := true
	for _, t := range ts {
		if t.op != OpConst {
			allConst = false
			break
		}
	}
	if allConst && len(ts) > 2 {
		w := ts[0].w
		var ix *Term
		switch {
		case idx.w == w:
			ix = idx
		case idx.w > w:
			ix = st.Trunc(idx, w)
		default:
			ix = st.ZExt(idx, w)
		}
		type run struct {
			lo, hi int
			delta  uint64
		}
		var runs []run
		for i := 0; i < len(ts); {
			d := (ts[i].k - uint64(i)) & mask(w)
			j := i
			for j+1 < len(ts) && (ts[j+1].k-uint64(j+1))&mask(w) == d {
				j++
			}
			runs = append(runs, run{i, j, d})
			i = j + 1
		}
		if len(runs) <= len(ts)/2 {
			last := runs[len(runs)-1]
			res := st.Bin(OpAdd, ix, st.Const(w, last.delta))
			for r := len(runs) - 2; r >= 0; r-- {
				cond := st.Bin(OpULe, idx, st.Const(idx.w, uint64(runs[r].hi)))
				res = st.Ite(cond, st.Bin(OpAdd, ix, st.Const(w, runs[r].delta)), res)
			}
			return res
		}
	}
	res := ts[len(ts)-1]
	for i := len(ts) - 2; i >= 0; i-- {
		res = st.Ite(st.Eq(idx, st.Const(idx.w, uint64(i))), ts[i], res)
	}
	return res
}

func (m *Machine) indexAddr(x Value, idx *Term, it types.Type) Value {
	signed := isSignedType(it)
	var cells []*Cell
	switch v := x.(type) {
	case SliceV:
		if v.arr == nil {
			m.boundsCheck(idx, signed, 0, "nil slice index")
		}
		m.boundsCheck(idx, signed, v.len, "slice index")
		cells = v.arr.cells[v.off : v.off+v.len]
	case PtrV:
		if v.c == nil {
			m.goPanic("nil pointer dereference (array index)")
		}
		if v.c.kind != cellArray {
			m.unsupported("IndexAddr on non-array pointer")
		}
		m.boundsCheck(idx, signed, len(v.c.kids), "array index")
		cells = v.c.kids
	default:
		m.unsupported(fmt.Sprintf("IndexAddr of %T", x))
	}
	if idx.op == OpConst {
		return PtrV{c: cells[idx.k]}
	}
	// symbolic index: scalar elements -> symbolic element pointer; else fork
	scalar := true
	for _, c := range cells {
		if c.kind != cellScalar {
			scalar = false
			break
		}
		if _, ok := c.v.(*Term); !ok {
			scalar = false
			break
		}
	}
	if scalar {
		return PtrV{alts: cells, sel: idx}
	}
	for i := range cells {
		if m.branch(m.st.Eq(idx, m.st.Const(idx.w, uint64(i)))) {
			return PtrV{c: cells[i]}
		}
	}
	m.unsupported("symbolic index matched no element")
	return nil
}

func (m *Machine) slice(fr *frame, x *ssa.Slice) Value {
	v := m.get(fr, x.X)
	getIdx := func(sv ssa.Value, def int) int {
		if sv == nil {
			return def
		}
		return m.concreteInt(m.get(fr, sv).(*Term), "slice bound")
	}
	switch s := v.(type) {
	case StrV:
		lo := getIdx(x.Low, 0)
		hi := getIdx(x.High, len(s.b))
		if lo < 0 || hi < lo || hi > len(s.b) {
			m.goPanic(fmt.Sprintf("slice bounds out of range [%d:%d] with length %d", lo, hi, len(s.b)))
		}
		return StrV{s.b[lo:hi]}
	case SliceV:
		lo := getIdx(x.Low, 0)
		hi := getIdx(x.High, s.len)
		mx := getIdx(x.Max, s.cap)
		if lo < 0 || hi < lo || hi > s.cap || mx > s.cap || mx < hi {
			m.goPanic(fmt.Sprintf("slice bounds out of range [%d:%d:%d] with capacity %d", lo, hi, mx, s.cap))
		}
		if s.arr == nil {
			return SliceV{}
		}
		return SliceV{arr: s.arr, off: s.off + lo, len: hi - lo, cap: mx - lo}
	case PtrV:
		if s.c == nil {
			m.goPanic("slice of nil array pointer")
		}
		n := len(s.c.kids)
		lo := getIdx(x.Low, 0)
		hi := getIdx(x.High, n)
		mx := getIdx(x.Max, n)
		if lo < 0 || hi < lo || hi > n || mx > n || mx < hi {
			m.goPanic("slice bounds out of range (array)")
		}
		elem := under(x.X.Type().(*types.Pointer).Elem()).(*types.Array).Elem()
		arr := &ArrObj{cells: s.c.kids, elem: elem}
		return SliceV{arr: arr, off: lo, len: hi - lo, cap: mx - lo}
	}
	m.unsupported(fmt.Sprintf("slice of %T", v))
	return nil
}

// ---------------------------------------------------------------- maps

func (m *Machine) keyEq(a, b Value) *Term { return m.valuesEqual(a, b) }

func (m *Machine) mapFind(mo *MapObj, key Value) int {
	if mo == nil {
		return -1
	}
	for i, k := range mo.keys {
		c := m.keyEq(k, key)
		if c.op == OpConst {
			if c.k != 0 {
				return i
			}
			continue
		}
		if m.branch(c) {
			return i
		}
	}
	return -1
}

func (m *Machine) lookup(fr *frame, x *ssa.Lookup) Value {
	xv := m.get(fr, x.X)
	if s, ok := xv.(StrV); ok {
		return m.index(s, m.get(fr, x.Index).(*Term), x.Index.Type())
	}
	mv, ok := xv.(MapV)
	if !ok {
		m.unsupported(fmt.Sprintf("lookup in %T", xv))
	}
	key := m.get(fr, x.Index)
	i := m.mapFind(mv.m, key)
	elemT := under(x.X.Type()).(*types.Map).Elem()
	var val Value
	if i >= 0 {
		val = mv.m.vals[i]
	} else {
		val = m.zero(elemT)
	}
	if x.CommaOk {
		return TupleV{val, m.st.Bool(i >= 0)}
	}
	return val
}

func (m *Machine) mapUpdate(mv Value, key, val Value) {
	mm := mv.(MapV)
	if mm.m == nil {
		m.goPanic("assignment to entry in nil map")
	}
	i := m.mapFind(mm.m, key)
	m.mapMutate(mm.m, false)
	if i >= 0 {
		mm.m.vals[i] = val
		return
	}
	mm.m.keys = append(mm.m.keys, key)
	mm.m.vals = append(mm.m.vals, val)
}

func (m *Machine) next(it *IterV, isString bool) Value {
	if isString {
		if it.pos >= len(it.str) {
			return TupleV{m.st.False, m.st.Const(64, 0), m.st.Const(32, 0)}
		}
		r, size := m.decodeRuneAt(it.str, it.pos)
		idx := it.pos
		it.pos += size
		return TupleV{m.st.True, m.st.Const(64, uint64(idx)), r}
	}
	if it.mobj == nil || it.pos >= len(it.mobj.keys) {
		return TupleV{m.st.False, nil, nil}
	}
	k, v := it.mobj.keys[it.pos], it.mobj.vals[it.pos]
	it.pos++
	return TupleV{m.st.True, k, v}
}

// ---------------------------------------------------------------- type assertions

func (m *Machine) typeAssert(x *ssa.TypeAssert, v Value) Value {
	iv, ok := v.(IfaceV)
	if !ok {
		m.unsupported(fmt.Sprintf("type assert on %T", v))
	}
	okv := false
	var res Value
	if iv.t != nil {
		if types.IsInterface(x.AssertedType) {
			okv = types.Implements(iv.t, under(x.AssertedType).(*types.Interface))
			if okv {
				res = iv
			}
		} else {
			okv = types.Identical(iv.t, x.AssertedType)
			if okv {
				res = iv.v
			}
		}
	}
	if x.CommaOk {
		if !okv {
			res = m.zero(x.AssertedType)
		}
		return TupleV{res, m.st.Bool(okv)}
	}
	if !okv {
		m.goPanic("interface conversion failed: " + x.String())
	}
	return res
}

// ---------------------------------------------------------------- builtins

func (m *Machine) builtin(b *ssa.Builtin, args []Value, caller *frame, cc *ssa.CallCommon) Value {
	switch b.Name() {
	case "len":
		switch v := args[0].(type) {
		case StrV:
			return m.st.Const(64, uint64(len(v.b)))
		case SliceV:
			return m.st.Const(64, uint64(v.len))
		case MapV:
			if v.m == nil {
				return m.st.Const(64, 0)
			}
			return m.st.Const(64, uint64(len(v.m.keys)))
		case ArrayV:
			return m.st.Const(64, uint64(len(v.e)))
		case PtrV:
			if v.c != nil && v.c.kind == cellArray {
				return m.st.Const(64, uint64(len(v.c.kids)))
			}
		}
		m.unsupported(fmt.Sprintf("len of %T", args[0]))
	case "cap":
		switch v := args[0].(type) {
		case SliceV:
			return m.st.Const(64, uint64(v.cap))
		case ArrayV:
			return m.st.Const(64, uint64(len(v.e)))
		}
		m.unsupported(fmt.Sprintf("cap of %T", args[0]))
	case "append":
		return m.appendBuiltin(args, cc)
	case "copy":
		dst := args[0].(SliceV)
		var n int
		switch src := args[1].(type) {
		case SliceV:
			n = dst.len
			if src.len < n {
				n = src.len
			}
			tmp := make([]Value, n)
			for i := 0; i < n; i++ {
				tmp[i] = m.loadCell(src.arr.cells[src.off+i])
			}
			for i := 0; i < n; i++ {
				m.storeCell(dst.arr.cells[dst.off+i], tmp[i])
			}
		case StrV:
			n = dst.len
			if len(src.b) < n {
				n = len(src.b)
			}
			for i := 0; i < n; i++ {
				m.storeCell(dst.arr.cells[dst.off+i], src.b[i])
			}
		default:
			m.unsupported("copy from " + fmt.Sprintf("%T", args[1]))
		}
		return m.st.Const(64, uint64(n))
	case "delete":
		mm := args[0].(MapV)
		if mm.m == nil {
			return nil
		}
		i := m.mapFind(mm.m, args[1])
		if i >= 0 {
			m.mapMutate(mm.m, false)
			mm.m.keys = append(mm.m.keys[:i:i], mm.m.keys[i+1:]...)
			mm.m.vals = append(mm.m.vals[:i:i], mm.m.vals[i+1:]...)
		}
		return nil
	case "print", "println":
		return nil
	case "clear":
		switch v := args[0].(type) {
		case SliceV:
			if v.arr != nil {
				for i := 0; i < v.len; i++ {
					m.storeCell(v.arr.cells[v.off+i], m.zero(v.arr.elem))
				}
			}
			return nil
		case MapV:
			if v.m != nil && len(v.m.keys) > 0 {
				m.mapMutate(v.m, false)
				v.m.keys = nil
				v.m.vals = nil
			}
			return nil
		}
		m.unsupported(fmt.Sprintf("clear of %T", args[0]))
	case "recover":
		if m.recoverable != nil && m.recoverable.panicking != nil {
			gp := m.recoverable.panicking
			m.recoverable.panicking = nil
			if iv, ok := gp.val.(IfaceV); ok && iv.t != nil {
				return iv
			}
			// runtime error: give a non-nil opaque error value
			return IfaceV{t: m.runtimeErrType(), v: OpaqueV{kind: "runtime.Error", data: gp.msg}}
		}
		return IfaceV{}
	case "ssa:wrapnilchk":
		p := args[0].(PtrV)
		if p.c == nil && p.alts == nil {
			m.goPanic("value method called using nil pointer")
		}
		return p
	case "min", "max":
		m.unsupported("min/max builtin")
	}
	m.unsupported("builtin " + b.Name())
	return nil
}

func (m *Machine) runtimeErrType() types.Type {
	return types.Universe.Lookup("error").Type()
}

func (m *Machine) elemSize(t types.Type) int {
	return int(m.sizes.Sizeof(t))
}

func (m *Machine) appendBuiltin(args []Value, cc *ssa.CallCommon) Value {
	var s SliceV
	if args[0] != nil {
		s = args[0].(SliceV)
	}
	var elemT types.Type
	if cc != nil {
		elemT = under(cc.Args[0].Type()).(*types.Slice).Elem()
	} else if s.arr != nil {
		elemT = s.arr.elem
	} else {
		m.unsupported("append without type info")
	}
	var add []Value
	switch src := args[1].(type) {
	case SliceV:
		add = make([]Value, src.len)
		for i := 0; i < src.len; i++ {
			add[i] = m.loadCell(src.arr.cells[src.off+i])
		}
	case StrV:
		add = make([]Value, len(src.b))
		for i, t := range src.b {
			add[i] = t
		}
	case nil:
	default:
		m.unsupported(fmt.Sprintf("append of %T", args[1]))
	}
	return m.appendValues(s, elemT, add)
}

func (m *Machine) appendValues(s SliceV, elemT types.Type, add []Value) SliceV {
	if len(add) == 0 {
		return s
	}
	newLen := s.len + len(add)
	if newLen <= s.cap {
		for i, v := range add {
			m.storeCell(s.arr.cells[s.off+s.len+i], v)
		}
		return SliceV{arr: s.arr, off: s.off, len: newLen, cap: s.cap}
	}
	nc := growCap(s.cap, newLen, m.elemSize(elemT))
	arr := m.newArr(elemT, nc)
	for i := 0; i < s.len; i++ {
		m.storeCellInit(arr.cells[i], m.loadCell(s.arr.cells[s.off+i]))
	}
	for i, v := range add {
		m.storeCellInit(arr.cells[s.len+i], v)
	}
	return SliceV{arr: arr, off: 0, len: newLen, cap: nc}
}

// storeCellInit initialises a freshly allocated cell (no monitor involvement).
func (m *Machine) storeCellInit(c *Cell, v Value) {
	switch c.kind {
	case cellStruct:
		for i, k := range c.kids {
			m.storeCellInit(k, v.(StructV).f[i])
		}
	case cellArray:
		for i, k := range c.kids {
			m.storeCellInit(k, v.(ArrayV).e[i])
		}
	default:
		c.v = v
	}
}

var sizeClasses = []int{0, 8, 16, 24, 32, 48, 64, 80, 96, 112, 128, 144, 160, 176, 192, 208, 224, 240, 256, 288, 320, 352, 384, 416, 448, 480, 512, 576, 640, 704, 768, 896, 1024, 1152, 1280, 1408, 1536, 1792, 2048, 2304, 2688, 3072, 3200, 3456, 4096, 4864, 5120, 5376, 6144, 6528, 6784, 6912, 8192, 9472, 9728, 10240, 10880, 12288, 13568, 14336, 16384, 18432, 19072, 20480, 21760, 24576, 27264, 28672, 32768}

func roundupsize(size int) int {
	for _, c := range sizeClasses {
		if c >= size {
			return c
		}
	}
	// large: round up to page size
	return (size + 8191) &^ 8191
}

func roundupCap(n, elemSize int) int {
	if n == 0 {
		return 0
	}
	return roundupsize(n*elemSize) / elemSize
}

func growCap(oldCap, newLen, elemSize int) int {
	newcap := oldCap
	doublecap := newcap + newcap
	if newLen > doublecap {
		newcap = newLen
	} else {
		const threshold = 256
		if oldCap < threshold {
			newcap = doublecap
		} else {
			for {
				newcap += (newcap + 3*threshold) >> 2
				if uint(newcap) >= uint(newLen) {
					break
				}
			}
		}
	}
	if elemSize == 0 {
		return newcap
	}
	return roundupsize(newcap*elemSize) / elemSize
}
