package main

// One long-lived solver process per worker. Terms are emitted once as
// (define-fun tN () Sort body) in topological order; a query is a
// check-sat-assuming over the names of the path-condition literals.

import (
	"bufio"
	"fmt"
	"io"
	"os"
	"os/exec"
	"strconv"
	"strings"
	"time"
)

type Solver struct {
	kind     string // z3 | z3-new | cvc5
	cmd      *exec.Cmd
	in       io.WriteCloser
	out      *bufio.Reader
	st       *Store
	emitted  []bool // by term id
	declared []bool // by var index
	nEmitted int
	buf      strings.Builder
	// stats
	queries   int
	sat       int
	unsat     int
	unknown   int
	errors    int
	timeNs    int64
	timeoutMs int
	rlimit    int // deterministic per-query resource limit (z3), 0 = none
	log       io.Writer
	lastErr   string
	inPath    bool
	pathLits  []*Term // literals asserted in the current path frame (re-asserted after a restart)
}

// PathBegin opens the frame that holds the path condition of one path.
func (s *Solver) PathBegin() {
	if s.inPath {
		s.PathEnd()
	}
	if s.nEmitted > 150000 {
		s.Restart()
	}
	s.buf.WriteString("(push 1)\n")
	s.inPath = true
	s.pathLits = s.pathLits[:0]
}

// PathAssert adds a literal to the path frame (no check).
func (s *Solver) PathAssert(l *Term) {
	if l.op == OpConst && l.k != 0 {
		return
	}
	s.pathLits = append(s.pathLits, l)
	s.emit(l)
	s.buf.WriteString("(assert ")
	s.buf.WriteString(termRef(l))
	s.buf.WriteString(")\n")
}

// PathEnd closes the path frame.
func (s *Solver) PathEnd() {
	if s.inPath {
		s.buf.WriteString("(pop 1)\n")
		s.inPath = false
	}
}

// PathCheck decides path-frame ∧ extra (extra may be nil).
func (s *Solver) PathCheck(extra *Term, wantModel bool, nvars int) (Result, []uint64) {
	var lits []*Term
	if extra != nil {
		lits = []*Term{extra}
	}
	return s.Check(lits, wantModel, nvars)
}

func solverArgv(kind string, timeoutMs int) []string {
	switch kind {
	case "z3":
		return []string{"z3", "-in", "-smt2"}
	case "z3-new":
		return []string{"z3-new", "-in", "-smt2"}
	case "cvc5":
		return []string{"cvc5", "--incremental", "--lang=smt2", "--produce-models", "--global-declarations", fmt.Sprintf("--tlimit-per=%d", timeoutMs)}
	}
	panic("unknown solver " + kind)
}

func NewSolver(kind string, st *Store, timeoutMs int) (*Solver, error) {
	s := &Solver{kind: kind, st: st, timeoutMs: timeoutMs}
	if err := s.start(); err != nil {
		return nil, err
	}
	return s, nil
}

func (s *Solver) start() error {
	argv := solverArgv(s.kind, s.timeoutMs)
	s.cmd = exec.Command(argv[0], argv[1:]...)
	in, err := s.cmd.StdinPipe()
	if err != nil {
		return err
	}
	out, err := s.cmd.StdoutPipe()
	if err != nil {
		return err
	}
	s.cmd.Stderr = os.Stderr
	if err := s.cmd.Start(); err != nil {
		return err
	}
	s.in = in
	s.out = bufio.NewReaderSize(out, 1<<16)
	if lp := os.Getenv("VERIF_SMTLOG"); lp != "" && s.log == nil {
		f, _ := os.Create(fmt.Sprintf("%s.%d", lp, os.Getpid()))
		s.log = f
	}
	s.emitted = s.emitted[:0]
	s.declared = s.declared[:0]
	s.nEmitted = 0
	s.buf.Reset()
	s.buf.WriteString("(set-option :print-success false)\n")
	if s.kind != "cvc5" {
		s.buf.WriteString("(set-option :produce-models true)\n")
		fmt.Fprintf(&s.buf, "(set-option :timeout %d)\n", s.timeoutMs)
		if s.rlimit > 0 {
			fmt.Fprintf(&s.buf, "(set-option :rlimit %d)\n", s.rlimit)
		}
	}
	s.buf.WriteString("(set-option :global-declarations true)\n")
	s.buf.WriteString("(set-logic QF_BV)\n")
	s.inPath = false
	return nil
}

func (s *Solver) Close() {
	if s.cmd != nil {
		s.in.Close()
		s.cmd.Process.Kill()
		s.cmd.Wait()
		s.cmd = nil
	}
}

// restart the process (bounds memory growth of the define-fun table).
func (s *Solver) Restart() error {
	s.Close()
	wasIn := s.inPath
	lits := append([]*Term(nil), s.pathLits...)
	if err := s.start(); err != nil {
		return err
	}
	if wasIn {
		s.buf.WriteString("(push 1)\n")
		s.inPath = true
		s.pathLits = s.pathLits[:0]
		for _, l := range lits {
			s.PathAssert(l)
		}
	}
	return nil
}

func (s *Solver) emit(t *Term) {
	if t == nil {
		return
	}
	switch t.op {
	case OpConst:
		return
	case OpVar:
		idx := int(t.k)
		for len(s.declared) <= idx {
			s.declared = append(s.declared, false)
		}
		if !s.declared[idx] {
			s.declared[idx] = true
			fmt.Fprintf(&s.buf, "(declare-const v%d %s)\n", idx, sortName(t.w))
		}
		return
	}
	id := int(t.id)
	for len(s.emitted) <= id {
		s.emitted = append(s.emitted, false)
	}
	if s.emitted[id] {
		return
	}
	s.emit(t.a)
	s.emit(t.b)
	s.emit(t.c)
	s.emitted[id] = true
	s.nEmitted++
	fmt.Fprintf(&s.buf, "(define-fun t%d () %s %s)\n", id, sortName(t.w), termBody(t))
}

var slowQ, _ = strconv.Atoi(os.Getenv("VERIF_SLOWQ"))

type Result int

const (
	Unsat Result = iota
	Sat
	Unknown
)

func (r Result) String() string { return [...]string{"unsat", "sat", "unknown"}[r] }

// Check decides satisfiability of the conjunction of lits. If sat and wantModel,
// the values of all declared variables with index < nvars are returned.
func (s *Solver) Check(lits []*Term, wantModel bool, nvars int) (Result, []uint64) {
	t0 := time.Now()
	defer func() {
		d := time.Since(t0)
		s.timeNs += d.Nanoseconds()
		if slowQ > 0 && d > time.Duration(slowQ)*time.Millisecond && len(lits) > 0 {
			fmt.Fprintf(os.Stderr, "SLOWQ %dms nlits=%d last=%s\n", d.Milliseconds(), len(lits), lits[len(lits)-1].String())
		}
	}()
	s.queries++
	if s.nEmitted > 400000 {
		if err := s.Restart(); err != nil {
			s.errors++
			s.lastErr = err.Error()
			return Unknown, nil
		}
	}
	for _, l := range lits {
		if l.op == OpConst && l.k == 0 {
			s.unsat++
			return Unsat, nil
		}
	}
	for _, l := range lits {
		s.emit(l)
	}
	// make sure every var the caller wants a value for is declared
	if wantModel {
		for i := 0; i < nvars; i++ {
			s.emit(s.st.vars[i].term)
		}
	}
	s.buf.WriteString("(push 1)\n")
	for _, l := range lits {
		if l.op == OpConst {
			continue
		}
		s.buf.WriteString("(assert ")
		s.buf.WriteString(termRef(l))
		s.buf.WriteString(")\n")
	}
	s.buf.WriteString("(check-sat)\n")
	if err := s.flush(); err != nil {
		s.errors++
		s.lastErr = err.Error()
		return Unknown, nil
	}
	line, err := s.readAnswer()
	if err != nil {
		s.errors++
		s.lastErr = "read: " + err.Error()
		s.Restart()
		return Unknown, nil
	}
	switch line {
	case "unsat":
		s.unsat++
		s.buf.WriteString("(pop 1)\n")
		return Unsat, nil
	case "sat":
		s.sat++
		if !wantModel || nvars == 0 {
			s.buf.WriteString("(pop 1)\n")
			return Sat, nil
		}
		m, err := s.getValues(nvars)
		s.buf.WriteString("(pop 1)\n")
		if err != nil {
			s.errors++
			s.lastErr = "model: " + err.Error()
			return Unknown, nil
		}
		return Sat, m
	default:
		s.buf.WriteString("(pop 1)\n")
		if strings.HasPrefix(line, "(error") {
			s.errors++
			s.lastErr = line
			fmt.Fprintf(os.Stderr, "SOLVER ERROR: %s\n", line)
		} else {
			s.unknown++
			s.lastErr = line
		}
		return Unknown, nil
	}
}

func (s *Solver) flush() error {
	str := s.buf.String()
	s.buf.Reset()
	if s.log != nil {
		io.WriteString(s.log, str)
	}
	_, err := io.WriteString(s.in, str)
	return err
}

// readAnswer reads the answer to a check-sat under a watchdog: a solver that ignores its own
// time/resource limit (seen with z3 4.8.12 on some deeply nested queries) is killed after twice the
// limit plus a margin; the caller sees a read error, restarts the solver and reports "unknown".
func (s *Solver) readAnswer() (string, error) {
	cmd := s.cmd
	d := time.Duration(2*s.timeoutMs+5000) * time.Millisecond
	if s.rlimit > 0 {
		d = 8 * time.Second
	}
	t := time.AfterFunc(d, func() {
		if cmd != nil && cmd.Process != nil {
			cmd.Process.Kill()
		}
	})
	defer t.Stop()
	return s.readLine()
}

func (s *Solver) readLine() (string, error) {
	for {
		line, err := s.out.ReadString('\n')
		if err != nil {
			return "", err
		}
		line = strings.TrimSpace(line)
		if line == "" {
			continue
		}
		return line, nil
	}
}

func (s *Solver) getValues(nvars int) ([]uint64, error) {
	s.buf.WriteString("(get-value (")
	for i := 0; i < nvars; i++ {
		fmt.Fprintf(&s.buf, "v%d ", i)
	}
	s.buf.WriteString("))\n")
	if err := s.flush(); err != nil {
		return nil, err
	}
	// response: ((v0 #x00) (v1 true) ...) possibly over several lines
	vals := make([]uint64, nvars)
	depth := 0
	var sb strings.Builder
	for {
		line, err := s.out.ReadString('\n')
		if err != nil {
			return nil, err
		}
		if strings.HasPrefix(strings.TrimSpace(line), "(error") {
			return nil, fmt.Errorf("%s", strings.TrimSpace(line))
		}
		sb.WriteString(line)
		for _, ch := range line {
			if ch == '(' {
				depth++
			} else if ch == ')' {
				depth--
			}
		}
		if depth <= 0 && strings.TrimSpace(sb.String()) != "" {
			break
		}
	}
	txt := sb.String()
	toks := strings.FieldsFunc(txt, func(r rune) bool { return r == '(' || r == ')' || r == ' ' || r == '\n' || r == '\t' })
	// tokens: v0 #x00 v1 true ...  ; cvc5 prints (_ bv5 8) as "_ bv5 8"
	i := 0
	for i < len(toks) {
		name := toks[i]
		i++
		if !strings.HasPrefix(name, "v") {
			continue
		}
		idx, err := strconv.Atoi(name[1:])
		if err != nil || i >= len(toks) {
			continue
		}
		val := toks[i]
		i++
		var v uint64
		switch {
		case val == "true":
			v = 1
		case val == "false":
			v = 0
		case strings.HasPrefix(val, "#x"):
			v, _ = strconv.ParseUint(val[2:], 16, 64)
		case strings.HasPrefix(val, "#b"):
			v, _ = strconv.ParseUint(val[2:], 2, 64)
		case val == "_":
			// _ bvN W
			if i+1 < len(toks) {
				v, _ = strconv.ParseUint(strings.TrimPrefix(toks[i], "bv"), 10, 64)
				i += 2
			}
		}
		if idx < nvars {
			vals[idx] = v
		}
	}
	return vals, nil
}
