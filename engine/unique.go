package main

import (
	"go/types"

	"golang.org/x/tools/go/ssa"
)

// unique.Make[T]: the runtime's canonicalisation map is replaced by a list of (type, value, cell)
// triples per machine; equal concrete values get the same cell (Handle equality is pointer
// equality, as in the real package). A value that is not decidably equal or different from an
// existing entry is unsupported. Entries made during package initialisation persist, entries made
// on a path are dropped when the path ends.
type uniqEntry struct {
	t types.Type
	v Value
	c *Cell
}

func (m *Machine) uniqueMake(fn *ssa.Function, args []Value) Value {
	targs := fn.TypeArgs()
	if len(targs) != 1 {
		m.unsupported("unique.Make without a type argument")
	}
	t := targs[0]
	if !m.initDone {
		m.uniqPath = m.uniqPath[:0]
	}
	look := func(list []uniqEntry) *Cell {
		for _, e := range list {
			if !types.Identical(e.t, t) {
				continue
			}
			eq := m.valuesEqual(e.v, args[0])
			if eq == m.st.True {
				return e.c
			}
			if eq != m.st.False {
				m.unsupported("unique.Make of a symbolic value")
			}
		}
		return nil
	}
	c := look(m.uniqInit)
	if c == nil {
		c = look(m.uniqPath)
	}
	if c == nil {
		save := m.epoch
		if !m.initDone {
			m.epoch = 0
		}
		c = m.newCell(t)
		m.storeCell(c, args[0])
		m.epoch = save
		if !m.initDone {
			m.uniqInit = append(m.uniqInit, uniqEntry{t, args[0], c})
		} else {
			m.uniqPath = append(m.uniqPath, uniqEntry{t, args[0], c})
		}
	}
	return StructV{f: []Value{PtrV{c: c}}}
}
