package main

import (
	"crypto/sha1"
	"encoding/json"
	"flag"
	"fmt"
	"os"
	"path/filepath"
	"sort"
	"strings"
	"time"
)

type CheckSpec struct {
	Title     string   `json:"title"`
	Harnesses []string `json:"harnesses"`
	// Thorough lists extra harnesses only run in the thorough tier.
	Thorough []string `json:"thorough,omitempty"`
	// PanicIsViolation: a Go panic / budget exhaustion reaching the harness top is a violation of this property.
	PanicIsViolation bool     `json:"panic_is_violation,omitempty"`
	Race             bool     `json:"race,omitempty"` // replay write-monitor hits with -race
	Bounds           []string `json:"bounds,omitempty"`
	Outside          []string `json:"outside,omitempty"`
	Assumptions      []string `json:"assumptions,omitempty"`
	RequiredCovers   []string `json:"required_covers,omitempty"`
}

type KnownFinding struct {
	Property string       `json:"property"`
	ID       string       `json:"id"`
	What     string       `json:"what"`
	Witness  ReplayRecord `json:"witness"`
}

type KnownFile struct {
	Open  []KnownFinding `json:"open"`
	Fixed []string       `json:"fixed"`
}

func loadKnown() (*KnownFile, error) {
	var kf KnownFile
	b, err := os.ReadFile(filepath.Join(verifDir(), "known-findings.json"))
	if err != nil {
		if os.IsNotExist(err) {
			return &kf, nil
		}
		return nil, err
	}
	if err := json.Unmarshal(b, &kf); err != nil {
		return nil, err
	}
	return &kf, nil
}

func loadSpecs() (map[string]CheckSpec, error) {
	b, err := os.ReadFile(filepath.Join(verifDir(), "harness", "checks.json"))
	if err != nil {
		return nil, err
	}
	specs := map[string]CheckSpec{}
	if err := json.Unmarshal(b, &specs); err != nil {
		return nil, err
	}
	return specs, nil
}

func saveReplay(rec ReplayRecord) (string, error) {
	js, _ := json.MarshalIndent(rec, "", " ")
	h := sha1.Sum(js)
	dir := filepath.Join(verifDir(), "replays")
	os.MkdirAll(dir, 0o755)
	p := filepath.Join(dir, fmt.Sprintf("%s-%s-%x.json", rec.Property, rec.Harness, h[:6]))
	return p, os.WriteFile(p, js, 0o644)
}

func sameObs(a, b []string) bool {
	if len(a) != len(b) {
		return false
	}
	for i := range a {
		if a[i] != b[i] {
			return false
		}
	}
	return true
}

func cmdCheck(args []string) int {
	fs := flag.NewFlagSet("check", flag.ExitOnError)
	var rc runConfig
	rc.flags(fs)
	prop := fs.String("prop", "", "property id")
	fs.Parse(args)
	rc.finish()
	if *prop == "" {
		usage()
	}
	t0 := time.Now()
	specs, err := loadSpecs()
	if err != nil {
		fmt.Fprintln(os.Stderr, "checks.json:", err)
		return 2
	}
	spec, ok := specs[*prop]
	if !ok {
		fmt.Fprintf(os.Stderr, "no check registered for %s\n", *prop)
		return 2
	}
	kf, err := loadKnown()
	if err != nil {
		fmt.Fprintln(os.Stderr, "known-findings.json:", err)
		return 2
	}
	openIDs := map[string]*KnownFinding{}
	for i := range kf.Open {
		if kf.Open[i].Property == *prop {
			openIDs[kf.Open[i].ID] = &kf.Open[i]
		}
	}
	l, e, ms, err := setup(&rc)
	if err != nil {
		fmt.Fprintln(os.Stderr, "setup:", err)
		return 2
	}
	defer closeMachines(ms)
	_ = l
	harnesses := append([]string{}, spec.Harnesses...)
	if rc.tier == "thorough" {
		harnesses = append(harnesses, spec.Thorough...)
	}

	inconclusive := []string{}
	var reports []*HarnessReport
	var candidates []PathResult // failing paths outside open classes
	knownHits := map[string][]PathResult{}
	var samples []PathResult
	totalPaths, totalFails := 0, 0
	covers := map[string]bool{}
	for _, h := range harnesses {
		rep, err := e.Run(ms, h)
		if err != nil {
			fmt.Fprintln(os.Stderr, err)
			return 2
		}
		reports = append(reports, rep)
		totalPaths += rep.Paths
		fmt.Printf("[%s] %s: paths=%d ok=%d fail=%d panic=%d outside=%d assume=%d unsupported=%d budget=%d write=%d wall=%.1fs\n",
			*prop, h, rep.Paths, rep.ByEnd["ok"], rep.ByEnd["fail"], rep.ByEnd["panic"], rep.ByEnd["outside"], rep.ByEnd["assume"], rep.ByEnd["unsupported"], rep.ByEnd["budget"], rep.ByEnd["write"], rep.WallS)
		if rep.Truncated {
			inconclusive = append(inconclusive, h+": exploration truncated by -maxpaths")
		}
		if rep.ByEnd["unsupported"] > 0 {
			inconclusive = append(inconclusive, fmt.Sprintf("%s: %d unsupported paths, e.g. %s", h, rep.ByEnd["unsupported"], first(rep.Unsupp)))
		}
		for c := range rep.Covers {
			covers[c] = true
		}
		for _, f := range rep.Fails {
			isViolationKind := f.End == endFail || f.End == endWrite || ((f.End == endPanic || f.End == endBudget) && spec.PanicIsViolation)
			if !isViolationKind {
				continue
			}
			totalFails++
			attributed := false
			for _, k := range f.Knowns {
				if _, open := openIDs[k]; open {
					knownHits[k] = append(knownHits[k], f)
					attributed = true
					break
				}
			}
			if !attributed {
				candidates = append(candidates, f)
			}
		}
		if !spec.PanicIsViolation && (rep.ByEnd["panic"] > 0 || rep.ByEnd["budget"] > 0) {
			fmt.Printf("[%s] note: %d paths end in a Go panic / budget exhaustion (the subject of C02, not of %s)\n", *prop, rep.ByEnd["panic"]+rep.ByEnd["budget"], *prop)
		}
		samples = append(samples, rep.Samples...)
	}
	for _, c := range spec.RequiredCovers {
		if !covers[c] {
			inconclusive = append(inconclusive, "reachability witness not reached (vacuous harness?): "+c)
		}
	}
	st := aggregate(ms)
	if st.inconclusive > 0 {
		inconclusive = append(inconclusive, fmt.Sprintf("%d solver answers were unknown/errors: %v", st.inconclusive, st.why))
	}

	// ---------------- native replay
	nr, err := NewNativeRunner(repoDir())
	if err != nil {
		fmt.Fprintln(os.Stderr, err)
		return 2
	}
	defer nr.Close()
	byPkg := func(rs []PathResult) map[string][]PathResult {
		mm := map[string][]PathResult{}
		for _, r := range rs {
			p, _ := pkgOfHarness(r.Harness)
			mm[p] = append(mm[p], r)
		}
		return mm
	}
	violations := 0
	mismatches := 0
	var violationLines []string
	// (a) candidates: replay distinct ones (cap) and report those that reproduce
	if len(candidates) > 0 {
		// prefer shallow witnesses first, dedupe by message
		sort.SliceStable(candidates, func(i, j int) bool { return candidates[i].Depth < candidates[j].Depth })
		seenMsg := map[string]int{}
		var chosen []PathResult
		for _, c := range candidates {
			key := c.Harness + "|" + c.Msg
			if seenMsg[key] >= 3 || len(chosen) >= 40 || (spec.Race && len(chosen) >= 8) {
				continue
			}
			seenMsg[key]++
			chosen = append(chosen, c)
		}
		for pkg, rs := range byPkg(chosen) {
			recs := make([]ReplayRecord, len(rs))
			for i, r := range rs {
				recs[i] = recordFromPath(*prop, rc.tier, r)
			}
			var outs []NativeOutcome
			var err error
			// write-monitor hits are sequential facts about stores; confirm natively with -race when asked
			if spec.Race {
				// the race detector reports each racing pair of locations once per process:
				// one process per witness
				for _, rec := range recs {
					o1, err1 := nr.Run(pkg, []ReplayRecord{rec}, true, 20)
					if err1 != nil {
						err = err1
						break
					}
					o1[0].I = len(outs)
					outs = append(outs, o1[0])
				}
			} else {
				outs, err = nr.Run(pkg, recs, false, 20)
			}
			if err != nil {
				fmt.Fprintln(os.Stderr, "native replay:", err)
				return 2
			}
			for i, o := range outs {
				rec := recs[i]
				reproduced := false
				switch rec.Expect {
				case "fail":
					reproduced = o.Outcome == "fail"
				case "panic":
					reproduced = o.Outcome == "panic" || o.Outcome == "crash"
				case "hang":
					// unbounded recursion ends natively in a fatal stack overflow (the process dies)
					reproduced = o.Outcome == "hang" || o.Outcome == "crash"
				case "write":
					reproduced = o.Outcome == "race" || o.Outcome == "fail"
				}
				if reproduced {
					p, _ := saveReplay(rec)
					violations++
					if len(violationLines) < 10 {
						violationLines = append(violationLines, fmt.Sprintf("VIOLATION property=%s replay=%s", *prop, p))
						fmt.Printf("[%s] violation witness: harness=%s %s: %s | inputs %s | native: %s %s\n", *prop, rec.Harness, rec.Expect, rec.Msg, fmtNondet(rec.Values), o.Outcome, o.Msg)
					}
				} else {
					mismatches++
					fmt.Printf("ENGINE-MISMATCH property=%s harness=%s engine=%s(%s) native=%s(%s) inputs %s\n", *prop, rec.Harness, rec.Expect, rec.Msg, o.Outcome, o.Msg, fmtNondet(rec.Values))
				}
			}
		}
	}
	// (b) known findings: the listed witness must still fail natively
	knownSeen := 0
	var knownIDs []string
	for id := range openIDs {
		knownIDs = append(knownIDs, id)
	}
	sort.Strings(knownIDs)
	for _, id := range knownIDs {
		k := openIDs[id]
		outs, err := nr.Run(k.Witness.Pkg, []ReplayRecord{k.Witness}, spec.Race && k.Witness.Expect == "write", 20)
		if err != nil {
			fmt.Fprintln(os.Stderr, "native replay:", err)
			return 2
		}
		o := outs[0]
		still := o.Outcome == "fail" || o.Outcome == "panic" || o.Outcome == "hang" || o.Outcome == "race" || o.Outcome == "crash"
		if still {
			knownSeen++
			fmt.Printf("KNOWN-FINDING: property=%s %s: %s (engine paths in class this run: %d)\n", *prop, id, k.What, len(knownHits[id]))
		} else if o.Outcome != "ok" {
			// the recorded witness does not fit the harness any more (its nondet sequence changed):
			// the finding can neither be confirmed nor declared gone
			inconclusive = append(inconclusive, fmt.Sprintf("the witness of known finding %s cannot be replayed (%s: %s): regenerate it", id, o.Outcome, o.Msg))
		} else {
			fmt.Printf("[%s] note: listed witness of known finding %s no longer fails natively (%s)\n", *prop, id, o.Outcome)
			// the class no longer describes the recorded defect: failures inside it are violations
			for _, f := range knownHits[id] {
				rec := recordFromPath(*prop, rc.tier, f)
				o2, err := nr.Run(rec.Pkg, []ReplayRecord{rec}, false, 20)
				if err == nil && len(o2) == 1 && (o2[0].Outcome == "fail" || o2[0].Outcome == "panic" || o2[0].Outcome == "hang") {
					p, _ := saveReplay(rec)
					violations++
					if len(violationLines) < 10 {
						violationLines = append(violationLines, fmt.Sprintf("VIOLATION property=%s replay=%s", *prop, p))
					}
					break
				}
			}
		}
	}
	// (c) translation validation of sampled terminal paths
	validated := 0
	var sampleOut []interface{}
	for pkg, rs := range byPkg(samples) {
		recs := make([]ReplayRecord, len(rs))
		for i, r := range rs {
			recs[i] = recordFromPath(*prop, rc.tier, r)
		}
		outs, err := nr.Run(pkg, recs, false, 20)
		if err != nil {
			fmt.Fprintln(os.Stderr, "native replay:", err)
			return 2
		}
		for i, o := range outs {
			if o.Outcome == "ok" && sameObs(o.Observed, recs[i].Observed) {
				validated++
				if len(sampleOut) < 6 {
					sampleOut = append(sampleOut, map[string]interface{}{"harness": recs[i].Harness, "inputs": fmtNondet(recs[i].Values), "observed": fmtObs(recs[i].Observed), "decisions": rs[i].Depth, "pc_literals": rs[i].PCSize, "steps": rs[i].Steps})
				}
			} else {
				mismatches++
				fmt.Printf("ENGINE-MISMATCH property=%s harness=%s sampled ok-path: native=%s(%s) inputs %s\n  engine observes=%v\n  native observes=%v\n", *prop, recs[i].Harness, o.Outcome, o.Msg, fmtNondet(recs[i].Values), fmtObs(recs[i].Observed), fmtObs(o.Observed))
			}
		}
	}
	if mismatches > 0 {
		inconclusive = append(inconclusive, fmt.Sprintf("%d engine/native mismatches", mismatches))
	}

	// ---------------- evidence
	wall := time.Since(t0).Seconds()
	fnList, ninstr := encodedFunctions(ms)
	harnessInfo := []interface{}{}
	for _, r := range reports {
		harnessInfo = append(harnessInfo, map[string]interface{}{"harness": r.Name, "paths": r.Paths, "by_end": r.ByEnd, "max_steps": r.MaxSteps, "max_decisions": r.MaxDepth, "wall_s": round2(r.WallS)})
	}
	if len(sampleOut) == 0 {
		for _, r := range reports {
			for _, f := range r.Fails {
				if len(sampleOut) < 3 {
					sampleOut = append(sampleOut, map[string]interface{}{"harness": f.Harness, "inputs": fmtNondet(f.Nondet), "end": f.End.String(), "msg": f.Msg})
				}
			}
		}
	}
	if len(sampleOut) == 0 {
		sampleOut = append(sampleOut, "no terminal path sampled")
	}
	var coverList []string
	for c := range covers {
		coverList = append(coverList, c)
	}
	sort.Strings(coverList)
	cov := map[string]interface{}{
		"states":                        max1(totalPaths),
		"transitions":                   max1(st.newDecisions),
		"traces_validated_against_impl": validated,
		"samples":                       sampleOut,
		"obligations":                   st.oblig,
		"discharged":                    st.obligUnsat,
		"exhaustive":                    false,
		"harnesses":                     harnessInfo,
		"bounds":                        spec.Bounds,
		"bound_parameters_used":         paramsUsed(ms),
		"outside_bound":                 spec.Outside,
		"functions_encoded":             len(fnList),
		"functions_encoded_names":       fnList,
		"ssa_instructions_encoded":      ninstr,
		"solver":                        rc.solver,
		"queries":                       st.queries,
		"queries_sat":                   st.sat,
		"queries_unsat":                 st.unsat,
		"queries_unknown":               st.unknown + st.errors,
		"solver_time_s":                 round2(float64(st.timeNs) / 1e9),
		"branch_decisions":              st.branches,
		"forks":                         st.forks,
		"pruned_by_domain_prefilter":    st.factPruned,
		"summaries_built":               st.summaryMiss,
		"summary_cache_hits":            st.summaryHits,
		"outside_bound_idna_paths":      st.outsideIDNA,
		"interpreted_steps":             st.steps,
		"intrinsic_calls":               st.intrinsics,
		"covers":                        coverList,
		"known_findings_seen":           knownSeen,
		"violating_paths":               totalFails,
		"native_replays":                nr.runs,
		"native_build_s":                round2(nr.buildS),
		"inconclusive":                  inconclusive,
		"map_range_uses":                st.mapRange,
		"explanation":                   "bounded symbolic execution of the SSA of /repo's working tree; each path's feasibility and each property assertion decided by the SMT solver over all byte values of the symbolic inputs inside the stated bounds",
	}
	ev := map[string]interface{}{
		"property_id": *prop,
		"tier":        rc.tier,
		"seed":        rc.seed,
		"level":       "model_checking",
		"coverage":    cov,
		"assumptions": append([]string{
			"go/ssa lowering of the source is faithful (bridged by native replay of solver witnesses and sampled paths)",
			"intrinsics model strings/strconv/unicode/utf8/sort/net-url helpers; stubs: idna ToASCII (ASCII, no ACE label => ASCII-lowercase; error <=> a byte outside [A-Za-z0-9.-], both validated against the real library by the selftest), regexp `\\.\\.+`, fmt formatting",
			"sync.Mutex/RWMutex/Once, sync.Map and sync/atomic are modelled sequentially (lock sets instead of blocking; Eraser-style lockset rule while the C14 write monitor is on); sync.Pool, channels and goroutines started by the library are not modelled (a path reaching them is inconclusive)",
			"sound pre-filters (per-byte domains, interval sets of wider variables, byte cuts, syntactic implication, cached models) only ever declare a branch side infeasible or feasible; property obligations always go to the solver",
			"bounds as listed in coverage.bounds; anything in coverage.outside_bound is not claimed",
		}, spec.Assumptions...),
		"wall_s":     round2(wall),
		"violations": violations,
	}
	evDir := filepath.Join(verifDir(), "evidence")
	if d := os.Getenv("VERIF_EVIDENCE_DIR"); d != "" {
		evDir = d // runs against a scratch copy of the repository (tools/mutcheck.sh) must not touch the committed evidence
	}
	os.MkdirAll(evDir, 0o755)
	js, _ := json.MarshalIndent(ev, "", " ")
	if err := os.WriteFile(filepath.Join(evDir, *prop+".json"), js, 0o644); err != nil {
		fmt.Fprintln(os.Stderr, err)
		return 2
	}
	fmt.Printf("[%s] tier=%s paths=%d queries=%d (unsat %d) solver=%.1fs validated=%d/%d known=%d violations=%d wall=%.1fs\n",
		*prop, rc.tier, totalPaths, st.queries, st.unsat, float64(st.timeNs)/1e9, validated, len(samples), knownSeen, violations, wall)
	for _, v := range violationLines {
		fmt.Println(v)
	}
	if violations > 0 {
		return 1
	}
	if len(inconclusive) > 0 {
		for _, s := range inconclusive {
			fmt.Printf("INCONCLUSIVE property=%s %s\n", *prop, s)
		}
		return 2
	}
	return 0
}

func first(s []string) string {
	if len(s) == 0 {
		return ""
	}
	return s[0]
}

func max1(n int) int {
	if n < 1 {
		return 1
	}
	return n
}

func round2(f float64) float64 { return float64(int(f*100+0.5)) / 100 }

func encodedFunctions(ms []*Machine) ([]string, int) {
	seen := map[string]int{}
	for _, m := range ms {
		for fn := range m.fnSeen {
			seen[fn.String()] = m.info(fn).ninstr
		}
	}
	var names []string
	total := 0
	for n, c := range seen {
		if strings.Contains(n, "/internal/vnd") {
			continue
		}
		names = append(names, n)
		total += c
	}
	sort.Strings(names)
	return names, total
}

// paramsUsed: the values of every vnd.Param bound parameter the harnesses asked for in this run.
func paramsUsed(ms []*Machine) map[string]int {
	out := map[string]int{}
	for _, m := range ms {
		for k, v := range m.paramsSeen {
			out[k] = v
		}
	}
	return out
}
