package main

import "math/bits"

// Interval facts: a cheap, sound unsigned interval for a term, using the current
// per-byte domains of the path. Used only to show a branch side infeasible (or a
// bounds obligation true) without a solver call; never to establish feasibility
// and never for property obligations.

type iv struct{ lo, hi uint64 }

func (m *Machine) interval(t *Term, depth int) iv {
	full := iv{0, mask(t.w)}
	if t.w == 0 {
		full = iv{0, 1}
	}
	if depth > 24 {
		return full
	}
	switch t.op {
	case OpConst:
		return iv{t.k, t.k}
	case OpVar:
		if t.w <= 8 && m.dom != nil && m.local == nil {
			if d, ok := m.dom[int32(t.k)]; ok {
				lo, hi := -1, -1
				for i := 0; i < 256; i++ {
					if d.has(i) {
						if lo < 0 {
							lo = i
						}
						hi = i
					}
				}
				if lo >= 0 {
					return iv{uint64(lo), uint64(hi)}
				}
			}
		}
		if t.w > 8 && m.wdom != nil && m.local == nil {
			if d, ok := m.wdom[int32(t.k)]; ok && len(d) > 0 {
				return iv{d[0].lo, d[len(d)-1].hi}
			}
		}
		return full
	case OpZExt:
		return m.interval(t.a, depth+1)
	case OpSExt:
		a := m.interval(t.a, depth+1)
		if a.hi < uint64(1)<<(t.a.w-1) {
			return a
		}
		return full
	case OpExtract:
		if t.k == 0 {
			a := m.interval(t.a, depth+1)
			if a.hi <= mask(t.w) {
				return a
			}
		}
		return full
	case OpAdd:
		a, b := m.interval(t.a, depth+1), m.interval(t.b, depth+1)
		s, c := bits.Add64(a.hi, b.hi, 0)
		if c == 0 && s <= mask(t.w) {
			return iv{a.lo + b.lo, s}
		}
		return full
	case OpSub:
		a, b := m.interval(t.a, depth+1), m.interval(t.b, depth+1)
		if a.lo >= b.hi {
			return iv{a.lo - b.hi, a.hi - b.lo}
		}
		return full
	case OpMul:
		a, b := m.interval(t.a, depth+1), m.interval(t.b, depth+1)
		h, l := bits.Mul64(a.hi, b.hi)
		if h == 0 && l <= mask(t.w) {
			return iv{a.lo * b.lo, l}
		}
		return full
	case OpUDiv:
		if t.b.op == OpConst && t.b.k > 0 {
			a := m.interval(t.a, depth+1)
			return iv{a.lo / t.b.k, a.hi / t.b.k}
		}
		return full
	case OpURem:
		if t.b.op == OpConst && t.b.k > 0 {
			a := m.interval(t.a, depth+1)
			if a.hi < t.b.k {
				return a
			}
			return iv{0, t.b.k - 1}
		}
		return full
	case OpLShr:
		if t.b.op == OpConst {
			a := m.interval(t.a, depth+1)
			if t.b.k >= 64 {
				return iv{0, 0}
			}
			return iv{a.lo >> t.b.k, a.hi >> t.b.k}
		}
		return full
	case OpShl:
		if t.b.op == OpConst && t.b.k < 64 {
			a := m.interval(t.a, depth+1)
			if a.hi <= mask(t.w)>>t.b.k {
				return iv{a.lo << t.b.k, a.hi << t.b.k}
			}
		}
		return full
	case OpBAnd:
		a, b := m.interval(t.a, depth+1), m.interval(t.b, depth+1)
		hi := a.hi
		if b.hi < hi {
			hi = b.hi
		}
		return iv{0, hi}
	case OpBOr, OpBXor:
		a, b := m.interval(t.a, depth+1), m.interval(t.b, depth+1)
		mx := a.hi | b.hi
		for s := uint(1); s < 64; s <<= 1 {
			mx |= mx >> s
		}
		lo := uint64(0)
		if t.op == OpBOr {
			lo = a.lo
			if b.lo > lo {
				lo = b.lo
			}
		}
		return iv{lo, mx}
	case OpIte:
		a, b := m.interval(t.b, depth+1), m.interval(t.c, depth+1)
		lo, hi := a.lo, a.hi
		if b.lo < lo {
			lo = b.lo
		}
		if b.hi > hi {
			hi = b.hi
		}
		return iv{lo, hi}
	}
	return full
}

// intervalImply: +1 if the comparison c is true for all values, -1 if false for all, 0 unknown.
func (m *Machine) intervalImply(c *Term) int {
	switch c.op {
	case OpULt, OpULe, OpSLt, OpSLe:
		a, b := m.interval(c.a, 0), m.interval(c.b, 0)
		op := c.op
		if op == OpSLt || op == OpSLe {
			half := uint64(1) << (c.a.w - 1)
			if a.hi >= half || b.hi >= half {
				return 0
			}
			if op == OpSLt {
				op = OpULt
			} else {
				op = OpULe
			}
		}
		if op == OpULt {
			if a.hi < b.lo {
				return 1
			}
			if a.lo >= b.hi {
				return -1
			}
			// x+y < x is false when the addition cannot wrap
			if c.a.op == OpAdd && (c.a.a == c.b || c.a.b == c.b) {
				x, y := m.interval(c.a.a, 0), m.interval(c.a.b, 0)
				if s, carry := bits.Add64(x.hi, y.hi, 0); carry == 0 && s <= mask(c.a.w) {
					return -1
				}
			}
		} else {
			if a.hi <= b.lo {
				return 1
			}
			if a.lo > b.hi {
				return -1
			}
			if c.b.op == OpAdd && (c.b.a == c.a || c.b.b == c.a) {
				x, y := m.interval(c.b.a, 0), m.interval(c.b.b, 0)
				if s, carry := bits.Add64(x.hi, y.hi, 0); carry == 0 && s <= mask(c.b.w) {
					return 1
				}
			}
		}
	case OpEq:
		if c.a.w == 0 {
			return 0
		}
		a, b := m.interval(c.a, 0), m.interval(c.b, 0)
		if a.hi < b.lo || b.hi < a.lo {
			return -1
		}
		if a.lo == a.hi && b.lo == b.hi && a.lo == b.lo {
			return 1
		}
	}
	return 0
}
