package main

// Pure-callee summarisation: a call whose results are scalars is executed on all
// of its internal paths ("local" exploration, context-free: no use of the outer
// path condition) and the results are merged into ite terms. Purity is checked
// during the execution (a store to an object that existed before the call, a
// nondet request or a feasible panic abandons the summary and the call is then
// executed normally, forking).

import (
	"fmt"
	"go/types"
	"strings"

	"golang.org/x/tools/go/ssa"
)

type readRec struct {
	c *Cell
	v Value
}

type localCtx struct {
	startEpoch int32
	prefix     []bool
	pos        int
	trace      []bool
	guard      []*Term
	pending    [][]bool
	reads      []readRec
	origin     map[*Term][]*Term
	originRev  map[*Term]*Term
	usedContext bool // the local run consulted facts of the outer path: result not cacheable
}

type sumKey string

type sumEntry struct {
	args  []Value // the actual arguments: keeps the keyed objects alive (no address reuse) and is compared on a hit
	val   Value
	reads []readRec
	bad   bool // the attempt failed (deterministically) for these arguments and this heap state
}

const (
	maxLocalPaths    = 48
	maxLocalBranches = 24
)

func sameValue(a, b Value) bool {
	switch x := a.(type) {
	case nil:
		return b == nil
	case *Term:
		y, ok := b.(*Term)
		return ok && x == y
	case StrV:
		y, ok := b.(StrV)
		if !ok || len(x.b) != len(y.b) {
			return false
		}
		for i := range x.b {
			if x.b[i] != y.b[i] {
				return false
			}
		}
		return true
	case PtrV:
		y, ok := b.(PtrV)
		return ok && x.alts == nil && y.alts == nil && x.c == y.c
	case SliceV:
		y, ok := b.(SliceV)
		return ok && x.arr == y.arr && x.off == y.off && x.len == y.len && x.cap == y.cap
	case MapV:
		y, ok := b.(MapV)
		return ok && x.m == y.m
	case IfaceV:
		y, ok := b.(IfaceV)
		if !ok {
			return false
		}
		if x.t == nil || y.t == nil {
			return x.t == nil && y.t == nil
		}
		return types.Identical(x.t, y.t) && sameValue(x.v, y.v)
	case FuncV:
		y, ok := b.(FuncV)
		return ok && x.fn == y.fn && x.bi == y.bi && len(x.env) == 0 && len(y.env) == 0
	case FloatV:
		y, ok := b.(FloatV)
		return ok && x.f == y.f
	case OpaqueV:
		y, ok := b.(OpaqueV)
		return ok && x.kind == y.kind && x.data == y.data
	case StructV:
		y, ok := b.(StructV)
		if !ok || len(x.f) != len(y.f) {
			return false
		}
		for i := range x.f {
			if !sameValue(x.f[i], y.f[i]) {
				return false
			}
		}
		return true
	case TupleV:
		y, ok := b.(TupleV)
		if !ok || len(x) != len(y) {
			return false
		}
		for i := range x {
			if !sameValue(x[i], y[i]) {
				return false
			}
		}
		return true
	}
	return false
}

func scalarResult(t types.Type) bool {
	if _, _, ok := intWidth(t); ok {
		return true
	}
	return false
}

func (m *Machine) summarizable(fn *ssa.Function) bool {
	if strings.HasPrefix(fn.Name(), "verifCheck") || strings.HasPrefix(fn.Name(), "verifFail") {
		return false
	}
	res := fn.Signature.Results()
	if res.Len() == 0 {
		return false
	}
	// scalar results only: a string result almost always differs in length between the local
	// paths (percent-encoding, error descriptions), the merge then fails and the attempt is wasted
	// on every call
	hasScalar := false
	for i := 0; i < res.Len(); i++ {
		t := res.At(i).Type()
		if scalarResult(t) {
			hasScalar = true
		} else {
			return false
		}
	}
	return hasScalar && fn.Blocks != nil && len(fn.Blocks) <= 80
}

func argKey(sb *strings.Builder, v Value) bool {
	switch x := v.(type) {
	case *Term:
		fmt.Fprintf(sb, "t%d,", x.id)
	case StrV:
		sb.WriteString("s")
		for _, t := range x.b {
			fmt.Fprintf(sb, "%d.", t.id)
		}
		sb.WriteString(",")
	case PtrV:
		if x.alts != nil {
			return false
		}
		fmt.Fprintf(sb, "p%p,", x.c)
	case SliceV:
		fmt.Fprintf(sb, "l%p:%d:%d,", x.arr, x.off, x.len)
	case FloatV:
		fmt.Fprintf(sb, "f%v,", x.f)
	case nil:
		sb.WriteString("n,")
	default:
		return false
	}
	return true
}

func hasSymbolicArg(args []Value) bool {
	for _, a := range args {
		switch x := a.(type) {
		case *Term:
			if x.op != OpConst {
				return true
			}
		case StrV:
			for _, t := range x.b {
				if t.op != OpConst {
					return true
				}
			}
		case PtrV, SliceV:
			return true
		}
	}
	return false
}

func (m *Machine) trySummary(fn *ssa.Function, args []Value, env []Value, caller *frame) (Value, bool) {
	if m.local != nil || len(env) > 0 {
		return nil, false
	}
	// NOTE: whether a call is summarised must be a deterministic function of the path
	// state (not of this worker's history), because decision prefixes are replayed on
	// other workers. Hence: a static purity analysis, and a cache that also remembers failures.
	if !m.summarizable(fn) || !m.staticallyPure(fn) || !hasSymbolicArg(args) {
		return nil, false
	}
	var sb strings.Builder
	fmt.Fprintf(&sb, "%p|", fn)
	cacheable := true
	for _, a := range args {
		if !argKey(&sb, a) {
			cacheable = false
			break
		}
	}
	key := sumKey(sb.String())
	if cacheable {
		e, ok := m.sumCache[key]
		if !ok {
			e, ok = m.sumCachePath[key]
		}
		if ok {
			valid := len(e.args) == len(args)
			for i := 0; valid && i < len(args); i++ {
				if !sameValue(e.args[i], args[i]) {
					valid = false
				}
			}
			for _, r := range e.reads {
				if !sameValue(r.c.v, r.v) {
					valid = false
					break
				}
			}
			if valid {
				m.stats.summaryHits++
				if e.bad {
					return nil, false
				}
				return e.val, true
			}
			delete(m.sumCache, key)
			delete(m.sumCachePath, key)
		}
	}
	perm := true
	for _, a := range args {
		if !permanentArg(a) {
			perm = false
			break
		}
	}
	store := func(e *sumEntry) {
		e.args = append([]Value(nil), args...)
		if perm {
			m.sumCache[key] = e
		} else {
			m.sumCachePath[key] = e
		}
	}
	val, reads, ok := m.summarize(fn, args, env, caller)
	if !ok {
		m.stats.summaryFail++
		if debugUnsat {
			debugMu.Lock()
			debugCount["SUMFAIL "+fn.String()]++
			debugMu.Unlock()
		}
		if cacheable {
			store(&sumEntry{bad: true, reads: reads})
		}
		return nil, false
	}
	m.stats.summaryMiss++
	if cacheable {
		store(&sumEntry{val: val, reads: reads})
	}
	return val, true
}

type localResult struct {
	guard *Term
	val   Value
}

func (m *Machine) summarize(fn *ssa.Function, args []Value, env []Value, caller *frame) (val Value, reads []readRec, ok bool) {
	defer func() {
		if !ok && m.sumCtx != nil {
			reads = m.sumCtx.reads
		}
		m.sumCtx = nil
	}()
	saveEpoch := m.epoch
	saveSteps := m.steps
	saveDepth := m.depth
	saveRecov := m.recoverable
	m.epoch++
	ctx := &localCtx{startEpoch: m.epoch}
	m.sumCtx = ctx
	ctx.pending = [][]bool{nil}
	var results []localResult
	defer func() {
		m.local = nil
		m.depth = saveDepth
		m.recoverable = saveRecov
		_ = saveEpoch
		_ = saveSteps
	}()
	for len(ctx.pending) > 0 {
		pfx := ctx.pending[len(ctx.pending)-1]
		ctx.pending = ctx.pending[:len(ctx.pending)-1]
		ctx.prefix = pfx
		ctx.pos = 0
		ctx.trace = ctx.trace[:0]
		ctx.guard = ctx.guard[:0]
		ctx.origin = nil
		ctx.originRev = nil
		v, status := m.runLocal(ctx, fn, args, env, caller)
		switch status {
		case 0: // ok
			g := m.st.True
			for _, l := range ctx.guard {
				g = m.st.And(g, l)
			}
			if g == m.st.False {
				continue
			}
			results = append(results, localResult{g, v})
		case 1: // go panic on this local path: only fine if the path is infeasible on its own
			lits := append([]*Term(nil), ctx.guard...)
			// the verdict depends on the guard literals only (hash-consed, persistent): memoise it
			var kb strings.Builder
			for _, l := range lits {
				fmt.Fprintf(&kb, "%d,", l.id)
			}
			res, seen := m.cfCache[kb.String()]
			if !seen {
				res, _ = m.solverCF.Check(lits, false, 0)
				if res != Unknown {
					m.cfCache[kb.String()] = res
				}
			}
			if res != Unsat {
				return nil, nil, false
			}
		default:
			return nil, nil, false
		}
		if len(results) > maxLocalPaths {
			return nil, nil, false
		}
	}
	if len(results) == 0 {
		return nil, nil, false
	}
	merged, mok := m.mergeResults(results)
	if !mok {
		return nil, nil, false
	}
	return merged, ctx.reads, true
}

// runLocal runs one local path. status: 0 ok, 1 go panic, 2 abort.
func (m *Machine) runLocal(ctx *localCtx, fn *ssa.Function, args []Value, env []Value, caller *frame) (v Value, status int) {
	m.local = ctx
	defer func() {
		m.local = nil
		if r := recover(); r != nil {
			switch e := r.(type) {
			case *goPanicV:
				status = 1
			case *pathEnd:
				if e.kind == endBudget {
					panic(r)
				}
				status = 2
			default:
				panic(r)
			}
		}
	}()
	v = m.execFunction(fn, args, env, caller)
	return v, 0
}

func (m *Machine) localBranch(c *Term) bool {
	ctx := m.local
	var d bool
	if ctx.pos < len(ctx.prefix) {
		d = ctx.prefix[ctx.pos]
	} else {
		if len(ctx.trace) >= maxLocalBranches {
			panic(&pathEnd{endAbortLocal, "too many local branches"})
		}
		d = true
		np := make([]bool, len(ctx.trace)+1)
		copy(np, ctx.trace)
		np[len(ctx.trace)] = false
		ctx.pending = append(ctx.pending, np)
		if len(ctx.pending) > maxLocalPaths {
			panic(&pathEnd{endAbortLocal, "too many local paths"})
		}
	}
	ctx.pos++
	ctx.trace = append(ctx.trace, d)
	ctx.guard = append(ctx.guard, m.lit(c, d))
	return d
}

func (m *Machine) mergeResults(rs []localResult) (Value, bool) {
	if len(rs) == 1 {
		return rs[0].val, true
	}
	if tv, ok := rs[0].val.(TupleV); ok {
		out := make(TupleV, len(tv))
		for i := range tv {
			comp := make([]localResult, len(rs))
			for j, r := range rs {
				t, ok := r.val.(TupleV)
				if !ok || len(t) != len(tv) {
					return nil, false
				}
				comp[j] = localResult{r.guard, t[i]}
			}
			v, ok := m.mergeResults(comp)
			if !ok {
				return nil, false
			}
			out[i] = v
		}
		return out, true
	}
	allSame := true
	for _, r := range rs[1:] {
		if !sameValue(r.val, rs[0].val) {
			allSame = false
			break
		}
	}
	if allSame {
		return rs[0].val, true
	}
	switch first := rs[0].val.(type) {
	case *Term:
		res := rs[len(rs)-1].val.(*Term)
		for i := len(rs) - 2; i >= 0; i-- {
			t, ok := rs[i].val.(*Term)
			if !ok || t.w != res.w {
				return nil, false
			}
			res = m.st.Ite(rs[i].guard, t, res)
		}
		return res, true
	case StrV:
		n := len(first.b)
		for _, r := range rs {
			s, ok := r.val.(StrV)
			if !ok || len(s.b) != n {
				return nil, false
			}
		}
		out := make([]*Term, n)
		for k := 0; k < n; k++ {
			res := rs[len(rs)-1].val.(StrV).b[k]
			for i := len(rs) - 2; i >= 0; i-- {
				res = m.st.Ite(rs[i].guard, rs[i].val.(StrV).b[k], res)
			}
			out[k] = res
		}
		return StrV{out}, true
	}
	return nil, false
}

// staticallyPure: conservative static analysis — the function (and its static callees)
// cannot write memory that existed before the call, and has no dynamic calls.
func (m *Machine) staticallyPure(fn *ssa.Function) bool {
	if v, ok := m.pureCache[fn]; ok {
		return v == 1
	}
	m.pureCache[fn] = 2 // in progress: recursion counts as impure
	res := m.computePure(fn)
	if res {
		m.pureCache[fn] = 1
	} else {
		m.pureCache[fn] = 0
	}
	return res
}

func localRoot(v ssa.Value) bool {
	for i := 0; i < 16; i++ {
		switch x := v.(type) {
		case *ssa.Alloc:
			return true
		case *ssa.MakeSlice:
			return true
		case *ssa.FieldAddr:
			v = x.X
		case *ssa.IndexAddr:
			v = x.X
		case *ssa.Slice:
			v = x.X
		default:
			return false
		}
	}
	return false
}

var pureIntrinsics = map[string]bool{
	"strings.HasPrefix": true, "strings.HasSuffix": true, "strings.ToLower": true, "strings.Contains": true,
	"strings.TrimPrefix": true, "strings.TrimSuffix": true, "strings.ReplaceAll": true, "strings.Trim": true,
	"strings.TrimLeft": true, "strings.TrimRight": true, "strings.Split": true, "strings.SplitN": true, "strings.IndexByte": true,
	"unicode.Is": true, "unicode.ToLower": true, "unicode/utf8.ValidString": true, "unicode/utf8.RuneLen": true,
	"math.Pow": true, "strconv.Itoa": true, "strconv.FormatInt": true, "strconv.FormatUint": true,
	"github.com/nlnwa/whatwg-url/internal/whatwgmodel.itoa": true,
	"strings.Clone": true, "internal/stringslite.Clone": true, "strconv.cloneString": true,
}

func (m *Machine) computePure(fn *ssa.Function) bool {
	if fn.Blocks == nil {
		return false
	}
	if fn.Pkg != nil && strings.HasSuffix(fn.Pkg.Pkg.Path(), "/internal/vnd") {
		return false
	}
	for _, b := range fn.Blocks {
		for _, ins := range b.Instrs {
			switch x := ins.(type) {
			case *ssa.Store:
				if !localRoot(x.Addr) {
					return false
				}
			case *ssa.MapUpdate, *ssa.Go, *ssa.Defer, *ssa.Send, *ssa.Select, *ssa.RunDefers:
				return false
			case *ssa.Call:
				if _, ok := x.Call.Value.(*ssa.Builtin); ok {
					bn := x.Call.Value.(*ssa.Builtin).Name()
					if bn == "copy" {
						if !localRoot(x.Call.Args[0]) {
							return false
						}
					}
					if bn == "delete" || bn == "recover" {
						return false
					}
					continue
				}
				callee := x.Call.StaticCallee()
				if callee == nil {
					return false
				}
				if pureIntrinsics[callee.String()] {
					continue
				}
				if _, isIntr := intrTable[callee.String()]; isIntr {
					return false
				}
				if _, isIntr := syncIntrinsics[callee.String()]; isIntr {
					return false
				}
				if !m.staticallyPure(callee) {
					return false
				}
			}
		}
	}
	return true
}

// permanentArg: the argument does not refer to an object of the current path
// (entries keyed on path objects are dropped at the end of the path).
func permanentArg(v Value) bool {
	switch x := v.(type) {
	case *Term, StrV, FloatV, nil:
		return true
	case PtrV:
		return x.alts == nil && (x.c == nil || x.c.epoch == 0)
	case SliceV:
		if x.arr == nil {
			return true
		}
		return len(x.arr.cells) > 0 && x.arr.cells[0].epoch == 0
	}
	return false
}
