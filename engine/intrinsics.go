package main

// Intrinsics (models of library/runtime semantics over the engine's value
// representation) and stubs (contracts for libraries that are not encoded).

import (
	"fmt"
	"go/types"
	"math"
	neturl "net/url"
	"strconv"
	"strings"
	"unicode"
	"unicode/utf8"

	"golang.org/x/net/idna"
	"golang.org/x/text/encoding/charmap"
	"golang.org/x/tools/go/ssa"
)

type intrFn func(m *Machine, args []Value, caller *frame) Value

var intrTable map[string]intrFn

func init() {
	intrTable = map[string]intrFn{
		// ---- strings
		"strings.HasPrefix":   func(m *Machine, a []Value, _ *frame) Value { return m.hasPrefix(a[0].(StrV), a[1].(StrV)) },
		"strings.HasSuffix":   func(m *Machine, a []Value, _ *frame) Value { return m.hasSuffix(a[0].(StrV), a[1].(StrV)) },
		"strings.Split":       func(m *Machine, a []Value, _ *frame) Value { return m.strSplit(a[0].(StrV), a[1].(StrV), -1) },
		"strings.SplitN":      func(m *Machine, a []Value, _ *frame) Value { return m.strSplit(a[0].(StrV), a[1].(StrV), m.concreteInt(a[2].(*Term), "SplitN n")) },
		"strings.ToLower":     func(m *Machine, a []Value, _ *frame) Value { return m.strToLower(a[0].(StrV)) },
		"strings.Trim":        func(m *Machine, a []Value, _ *frame) Value { return m.strTrim(a[0].(StrV), a[1].(StrV), true, true) },
		"strings.TrimLeft":    func(m *Machine, a []Value, _ *frame) Value { return m.strTrim(a[0].(StrV), a[1].(StrV), true, false) },
		"strings.TrimRight":   func(m *Machine, a []Value, _ *frame) Value { return m.strTrim(a[0].(StrV), a[1].(StrV), false, true) },
		"strings.TrimSpace":   func(m *Machine, a []Value, _ *frame) Value { return m.strTrimSpace(a[0].(StrV)) },
		"strings.TrimPrefix":  func(m *Machine, a []Value, _ *frame) Value { return m.strTrimPrefix(a[0].(StrV), a[1].(StrV)) },
		"strings.TrimSuffix":  func(m *Machine, a []Value, _ *frame) Value { return m.strTrimSuffix(a[0].(StrV), a[1].(StrV)) },
		"strings.ReplaceAll":  func(m *Machine, a []Value, _ *frame) Value { return m.strReplaceAll(a[0].(StrV), a[1].(StrV), a[2].(StrV)) },
		"strings.Contains":    func(m *Machine, a []Value, _ *frame) Value { return m.strContains(a[0].(StrV), a[1].(StrV)) },
		"strings.IndexByte":   func(m *Machine, a []Value, _ *frame) Value { return m.strIndexByte(a[0].(StrV), a[1].(*Term)) },
		"internal/bytealg.IndexByteString": func(m *Machine, a []Value, _ *frame) Value { return m.strIndexByte(a[0].(StrV), a[1].(*Term)) },
		"internal/stringslite.IndexByte":   func(m *Machine, a []Value, _ *frame) Value { return m.strIndexByte(a[0].(StrV), a[1].(*Term)) },
		"strings.Clone":       func(m *Machine, a []Value, _ *frame) Value { return a[0] },
		"internal/stringslite.Clone": func(m *Machine, a []Value, _ *frame) Value { return a[0] },
		"strconv.cloneString": func(m *Machine, a []Value, _ *frame) Value { return a[0] },
		// ---- strings.Builder (content kept as a StrV in the buf field)
		"(*strings.Builder).WriteString": func(m *Machine, a []Value, _ *frame) Value {
			s := a[1].(StrV)
			m.builderAppend(a[0], s.b)
			return TupleV{m.st.Const(64, uint64(len(s.b))), IfaceV{}}
		},
		"(*strings.Builder).WriteRune": func(m *Machine, a []Value, _ *frame) Value {
			b := m.runeBytes(a[1].(*Term))
			m.builderAppend(a[0], b)
			return TupleV{m.st.Const(64, uint64(len(b))), IfaceV{}}
		},
		"(*strings.Builder).WriteByte": func(m *Machine, a []Value, _ *frame) Value {
			m.builderAppend(a[0], []*Term{a[1].(*Term)})
			return IfaceV{}
		},
		"(*strings.Builder).Write": func(m *Machine, a []Value, _ *frame) Value {
			s := a[1].(SliceV)
			b := make([]*Term, s.len)
			for i := range b {
				b[i] = m.loadCell(s.arr.cells[s.off+i]).(*Term)
			}
			m.builderAppend(a[0], b)
			return TupleV{m.st.Const(64, uint64(len(b))), IfaceV{}}
		},
		"(*strings.Builder).String": func(m *Machine, a []Value, _ *frame) Value { return m.builderGet(a[0]) },
		"(*strings.Builder).Len": func(m *Machine, a []Value, _ *frame) Value {
			return m.st.Const(64, uint64(len(m.builderGet(a[0]).b)))
		},
		"(*strings.Builder).Cap": func(m *Machine, a []Value, _ *frame) Value {
			return m.st.Const(64, uint64(len(m.builderGet(a[0]).b)))
		},
		"(*strings.Builder).Reset": func(m *Machine, a []Value, _ *frame) Value { m.builderSet(a[0], StrV{}); return nil },
		"(*strings.Builder).Grow":  func(m *Machine, a []Value, _ *frame) Value { return nil },
		// ---- strconv
		"strconv.Itoa": func(m *Machine, a []Value, _ *frame) Value { return m.formatInt(a[0].(*Term), 10, true) },
		"strconv.FormatInt": func(m *Machine, a []Value, _ *frame) Value {
			return m.formatInt(a[0].(*Term), m.concreteInt(a[1].(*Term), "base"), true)
		},
		"strconv.FormatUint": func(m *Machine, a []Value, _ *frame) Value {
			return m.formatInt(a[0].(*Term), m.concreteInt(a[1].(*Term), "base"), false)
		},
		// the reference model's own decimal formatter (a digit loop): same function as strconv.Itoa
		"github.com/nlnwa/whatwg-url/internal/whatwgmodel.itoa": func(m *Machine, a []Value, _ *frame) Value {
			n := a[0].(*Term)
			if m.branch(m.st.Bin(OpSLe, n, m.st.Const(n.w, 0))) {
				return m.strConst("0") // the model's itoa returns "0" for n <= 0
			}
			return m.formatInt(n, 10, false)
		},
		// ---- unicode / utf8
		"unicode.Is":      func(m *Machine, a []Value, _ *frame) Value { return m.unicodeIs(a[0], a[1].(*Term)) },
		"unicode.ToLower": func(m *Machine, a []Value, _ *frame) Value { return m.runeToLower(a[0].(*Term)) },
		"unicode/utf8.EncodeRune": func(m *Machine, a []Value, _ *frame) Value {
			p := a[0].(SliceV)
			b := m.runeBytes(a[1].(*Term))
			if len(b) > p.len {
				m.goPanic("utf8.EncodeRune: index out of range")
			}
			for i, t := range b {
				m.storeCell(p.arr.cells[p.off+i], t)
			}
			return m.st.Const(64, uint64(len(b)))
		},
		"unicode/utf8.AppendRune": func(m *Machine, a []Value, _ *frame) Value {
			var p SliceV
			if a[0] != nil {
				p = a[0].(SliceV)
			}
			b := m.runeBytes(a[1].(*Term))
			add := make([]Value, len(b))
			for i, t := range b {
				add[i] = t
			}
			return m.appendValues(p, types.Typ[types.Uint8], add)
		},
		"unicode/utf8.ValidString": func(m *Machine, a []Value, _ *frame) Value { return m.validUTF8(a[0].(StrV).b) },
		"unicode/utf8.DecodeRuneInString": func(m *Machine, a []Value, _ *frame) Value {
			b := a[0].(StrV).b
			if len(b) == 0 {
				return TupleV{m.st.Const(32, 0xFFFD), m.st.Const(64, 0)}
			}
			r, n := m.decodeRuneAt(b, 0)
			return TupleV{r, m.st.Const(64, uint64(n))}
		},
		"unicode/utf8.DecodeRune": func(m *Machine, a []Value, _ *frame) Value {
			var p SliceV
			if a[0] != nil {
				p = a[0].(SliceV)
			}
			if p.len == 0 {
				return TupleV{m.st.Const(32, 0xFFFD), m.st.Const(64, 0)}
			}
			b := make([]*Term, p.len)
			for i := range b {
				b[i] = m.loadCell(p.arr.cells[p.off+i]).(*Term)
			}
			r, n := m.decodeRuneAt(b, 0)
			return TupleV{r, m.st.Const(64, uint64(n))}
		},
		"unicode/utf8.RuneCountInString": func(m *Machine, a []Value, _ *frame) Value {
			b := a[0].(StrV).b
			n := 0
			for i := 0; i < len(b); n++ {
				_, sz := m.decodeRuneAt(b, i)
				i += sz
			}
			return m.st.Const(64, uint64(n))
		},
		"unicode/utf8.RuneLen":     nil, // filled below (may decline)
		// ---- errors / fmt / math
		"errors.Is": func(m *Machine, a []Value, c *frame) Value { return m.errorsIs(a[0].(IfaceV), a[1].(IfaceV), c) },
		"fmt.Errorf": func(m *Machine, a []Value, _ *frame) Value { return m.opaqueError("fmt.Errorf") },
		"fmt.Sprintf": func(m *Machine, a []Value, _ *frame) Value { return m.strConst("<fmt.Sprintf>") },
		"fmt.Sprint":  func(m *Machine, a []Value, _ *frame) Value { return m.strConst("<fmt.Sprint>") },
		"math.Pow": func(m *Machine, a []Value, _ *frame) Value {
			return FloatV{math.Pow(a[0].(FloatV).f, a[1].(FloatV).f)}
		},
		// ---- net/url
		"net/url.PathUnescape": func(m *Machine, a []Value, _ *frame) Value { return m.pathUnescape(a[0].(StrV)) },
		// ---- sort
		"sort.SliceStable": func(m *Machine, a []Value, c *frame) Value { m.sortSliceStable(a[0], a[1].(FuncV), c); return nil },
		"sort.Slice":       func(m *Machine, a []Value, c *frame) Value { m.sortSlice(a[0], a[1].(FuncV), c, false); return nil },
		// ---- regexp stub
		"regexp.MustCompile": func(m *Machine, a []Value, _ *frame) Value {
			p, ok := a[0].(StrV).concrete()
			if !ok {
				m.unsupported("regexp.MustCompile of symbolic pattern")
			}
			return OpaqueV{kind: "regexp", data: p}
		},
		"(*regexp.Regexp).ReplaceAllString": func(m *Machine, a []Value, _ *frame) Value {
			return m.regexpReplaceAll(a[0], a[1].(StrV), a[2].(StrV))
		},
		// ---- idna stub
		"(*golang.org/x/net/idna.Profile).ToASCII": func(m *Machine, a []Value, _ *frame) Value { return m.idnaToASCIIRecv(a[0], a[1].(StrV)) },
		// ---- charmap
		"(*golang.org/x/text/encoding/charmap.Charmap).EncodeRune": func(m *Machine, a []Value, _ *frame) Value {
			return m.charmapEncodeRune(a[0], a[1].(*Term))
		},
		"(*golang.org/x/text/encoding/charmap.Charmap).DecodeByte": func(m *Machine, a []Value, _ *frame) Value {
			return m.charmapDecodeByte(a[0], a[1].(*Term))
		},
		"(*golang.org/x/text/encoding/charmap.Charmap).String": func(m *Machine, a []Value, _ *frame) Value {
			return m.strConst("<charmap>")
		},
	}
	delete(intrTable, "unicode/utf8.RuneLen")
}

// intrinsic dispatches library intrinsics, vnd calls and opaque-package stubs.
type intrKind uint8

const (
	ikNone intrKind = iota
	ikTable
	ikVnd
	ikIdna
	ikSkipInit
	ikRuneLen
)

type intrEntry struct {
	kind intrKind
	f    intrFn
	name string
}

func (m *Machine) classifyIntrinsic(fn *ssa.Function) intrEntry {
	name := fn.String()
	if f, ok := intrTable[name]; ok {
		return intrEntry{kind: ikTable, f: f, name: name}
	}
	if f, ok := syncIntrinsics[name]; ok {
		return intrEntry{kind: ikTable, f: f, name: name}
	}
	if o := fn.Origin(); o != nil && o.String() == "unique.Make" {
		f := fn
		return intrEntry{kind: ikTable, name: "unique.Make", f: func(m *Machine, a []Value, _ *frame) Value { return m.uniqueMake(f, a) }}
	}
	if fn.Pkg != nil {
		path := fn.Pkg.Pkg.Path()
		if fn.Synthetic == "package initializer" && (!m.interpPkg(path) || strings.HasSuffix(path, "/internal/vnd")) {
			return intrEntry{kind: ikSkipInit}
		}
		if strings.HasSuffix(path, "/internal/vnd") {
			return intrEntry{kind: ikVnd, name: fn.Name()}
		}
		if path == "golang.org/x/net/idna" {
			return intrEntry{kind: ikIdna}
		}
	}
	if name == "unicode/utf8.RuneLen" {
		return intrEntry{kind: ikRuneLen}
	}
	return intrEntry{kind: ikNone}
}

// intrinsic dispatches library intrinsics, vnd calls and opaque-package stubs.
func (m *Machine) intrinsic(fn *ssa.Function, args []Value, caller *frame) (Value, bool) {
	e, ok := m.intrCache[fn]
	if !ok {
		e = m.classifyIntrinsic(fn)
		m.intrCache[fn] = e
	}
	switch e.kind {
	case ikNone:
		return nil, false
	case ikTable:
		m.stats.intrinsics[e.name]++
		return e.f(m, args, caller), true
	case ikSkipInit:
		return nil, true // skipped initialiser
	case ikVnd:
		m.stats.intrinsics["vnd."+e.name]++
		return m.vndCall(e.name, args, caller), true
	case ikIdna:
		// option constructors and idna.New inside package initialisers: mirrored natively
		m.stats.intrinsics["idna.<opaque>"]++
		return m.idnaConstruct(fn, args), true
	case ikRuneLen:
		r := args[0].(*Term)
		if r.op == OpConst {
			return m.st.Const(64, uint64(int64(utf8.RuneLen(rune(int32(r.k)))))), true
		}
		if o, ok := m.getOrigin(r); ok {
			return m.st.Const(64, uint64(len(o))), true
		}
	}
	return nil, false
}

func (m *Machine) opaqueResult(fn *ssa.Function, kind string) Value {
	res := fn.Signature.Results()
	mk := func(t types.Type) Value {
		switch under(t).(type) {
		case *types.Interface:
			return IfaceV{t: t, v: OpaqueV{kind: kind, data: fn.Name()}}
		}
		return OpaqueV{kind: kind, data: fn.Name()}
	}
	switch res.Len() {
	case 0:
		return nil
	case 1:
		return mk(res.At(0).Type())
	}
	tv := make(TupleV, res.Len())
	for i := range tv {
		tv[i] = mk(res.At(i).Type())
	}
	return tv
}

func (m *Machine) opaqueMethod(iv IfaceV, name string, args []Value) (Value, bool) {
	return nil, false
}

func (m *Machine) opaqueError(what string) Value {
	// a non-nil error whose text is never inspected
	pkg := m.prog.ImportedPackage("errors")
	if pkg != nil {
		if tn := pkg.Type("errorString"); tn != nil {
			pt := types.NewPointer(tn.Type())
			c := m.newCell(tn.Type())
			c.kids[0].v = m.strConst("<" + what + ">")
			return IfaceV{t: pt, v: PtrV{c: c}}
		}
	}
	return IfaceV{t: types.Universe.Lookup("error").Type(), v: OpaqueV{kind: "error", data: what}}
}

// ---------------------------------------------------------------- strings

func (m *Machine) hasPrefix(s, p StrV) *Term {
	if len(p.b) > len(s.b) {
		return m.st.False
	}
	return m.strEq(StrV{s.b[:len(p.b)]}, p)
}

func (m *Machine) hasSuffix(s, p StrV) *Term {
	if len(p.b) > len(s.b) {
		return m.st.False
	}
	return m.strEq(StrV{s.b[len(s.b)-len(p.b):]}, p)
}

func (m *Machine) strContains(s, sub StrV) *Term {
	r := m.st.False
	for i := 0; i+len(sub.b) <= len(s.b); i++ {
		r = m.st.Or(r, m.strEq(StrV{s.b[i : i+len(sub.b)]}, sub))
	}
	return r
}

func (m *Machine) strIndexByte(s StrV, c *Term) Value {
	for i, b := range s.b {
		if m.branch(m.st.Eq(b, c)) {
			return m.st.Const(64, uint64(i))
		}
	}
	return m.st.Const(64, ^uint64(0))
}

func (m *Machine) mkStringSlice(parts []StrV) SliceV {
	st := types.Typ[types.String]
	arr := m.newArr(st, len(parts))
	for i, p := range parts {
		arr.cells[i].v = p
	}
	return SliceV{arr: arr, len: len(parts), cap: len(parts)}
}

func (m *Machine) strSplit(s, sep StrV, n int) Value {
	if n == 0 {
		return SliceV{}
	}
	if cs, ok := s.concrete(); ok {
		if csep, ok2 := sep.concrete(); ok2 {
			ps := strings.SplitN(cs, csep, n)
			parts := make([]StrV, len(ps))
			off := 0
			for i, p := range ps {
				// keep the original byte terms (they are constants anyway)
				parts[i] = m.strConst(p)
				off += len(p)
			}
			return m.mkStringSlice(parts)
		}
	}
	if len(sep.b) == 0 {
		m.unsupported("strings.Split with empty separator on symbolic string")
	}
	var parts []StrV
	start := 0
	i := 0
	for i+len(sep.b) <= len(s.b) {
		if n > 0 && len(parts) == n-1 {
			break
		}
		if m.branch(m.strEq(StrV{s.b[i : i+len(sep.b)]}, sep)) {
			parts = append(parts, StrV{s.b[start:i]})
			i += len(sep.b)
			start = i
		} else {
			i++
		}
	}
	parts = append(parts, StrV{s.b[start:]})
	return m.mkStringSlice(parts)
}

func (m *Machine) inCutset(b *Term, cut string) *Term {
	r := m.st.False
	for i := 0; i < len(cut); i++ {
		r = m.st.Or(r, m.st.Eq(b, m.st.Const(8, uint64(cut[i]))))
	}
	return r
}

func (m *Machine) strTrim(s, cutset StrV, left, right bool) Value {
	cut, ok := cutset.concrete()
	if !ok {
		m.unsupported("strings.Trim with symbolic cutset")
	}
	for i := 0; i < len(cut); i++ {
		if cut[i] >= 0x80 {
			m.unsupported("strings.Trim with non-ASCII cutset")
		}
	}
	lo, hi := 0, len(s.b)
	if left {
		for lo < hi && m.branch(m.inCutset(s.b[lo], cut)) {
			lo++
		}
	}
	if right {
		for hi > lo && m.branch(m.inCutset(s.b[hi-1], cut)) {
			hi--
		}
	}
	return StrV{s.b[lo:hi]}
}

// strTrimSpace: strings.TrimSpace. A concrete string is trimmed by the real function (Unicode white
// space included); a symbolic one is handled while the bytes at its ends are ASCII (branching on
// membership in the six ASCII white-space bytes) - a possibly non-ASCII byte at an end would need the
// unicode tables and is unsupported.
func (m *Machine) strTrimSpace(s StrV) Value {
	if c, ok := s.concrete(); ok {
		t := strings.TrimSpace(c)
		lo := strings.Index(c, t)
		if t == "" {
			lo = 0
		}
		return StrV{s.b[lo : lo+len(t)]}
	}
	const ws = "\t\n\v\f\r "
	lo, hi := 0, len(s.b)
	for lo < hi {
		if m.branch(m.st.Bin(OpULe, m.st.Const(8, 0x80), s.b[lo])) {
			m.unsupported("strings.TrimSpace with a symbolic non-ASCII byte at the start")
		}
		if !m.branch(m.inCutset(s.b[lo], ws)) {
			break
		}
		lo++
	}
	for hi > lo {
		if m.branch(m.st.Bin(OpULe, m.st.Const(8, 0x80), s.b[hi-1])) {
			m.unsupported("strings.TrimSpace with a symbolic non-ASCII byte at the end")
		}
		if !m.branch(m.inCutset(s.b[hi-1], ws)) {
			break
		}
		hi--
	}
	return StrV{s.b[lo:hi]}
}

func (m *Machine) strTrimPrefix(s, p StrV) Value {
	if len(p.b) > len(s.b) {
		return s
	}
	if m.branch(m.hasPrefix(s, p)) {
		return StrV{s.b[len(p.b):]}
	}
	return s
}

func (m *Machine) strTrimSuffix(s, p StrV) Value {
	if len(p.b) > len(s.b) {
		return s
	}
	if m.branch(m.hasSuffix(s, p)) {
		return StrV{s.b[:len(s.b)-len(p.b)]}
	}
	return s
}

func (m *Machine) strReplaceAll(s, old, nw StrV) Value {
	if len(old.b) == 1 && len(nw.b) == 1 {
		out := make([]*Term, len(s.b))
		for i, b := range s.b {
			out[i] = m.st.Ite(m.st.Eq(b, old.b[0]), nw.b[0], b)
		}
		return StrV{out}
	}
	cs, ok1 := s.concrete()
	co, ok2 := old.concrete()
	cn, ok3 := nw.concrete()
	if ok1 && ok2 && ok3 {
		return m.strConst(strings.ReplaceAll(cs, co, cn))
	}
	if len(old.b) == 0 {
		m.unsupported("ReplaceAll with empty old on symbolic string")
	}
	var out []*Term
	i := 0
	for i < len(s.b) {
		if i+len(old.b) <= len(s.b) && m.branch(m.strEq(StrV{s.b[i : i+len(old.b)]}, old)) {
			out = append(out, nw.b...)
			i += len(old.b)
		} else {
			out = append(out, s.b[i])
			i++
		}
	}
	return StrV{out}
}

func (m *Machine) lowerByte(b *Term) *Term {
	st := m.st
	if b.op == OpConst {
		c := byte(b.k)
		if c >= 'A' && c <= 'Z' {
			c += 32
		}
		return st.Const(8, uint64(c))
	}
	isUp := m.inRange(b, 'A', 'Z')
	return st.Ite(isUp, st.Bin(OpAdd, b, st.Const(8, 32)), b)
}

func (m *Machine) strToLower(s StrV) Value {
	st := m.st
	nonASCII := st.False
	for _, b := range s.b {
		nonASCII = st.Or(nonASCII, st.Bin(OpULe, st.Const(8, 0x80), b))
	}
	if m.branch(nonASCII) {
		// general case: per-rune mapping; only concrete runes are supported
		runes := m.decodeAll(s.b)
		var out []*Term
		for _, r := range runes {
			out = append(out, m.runeBytes(m.runeToLower(r))...)
		}
		return StrV{out}
	}
	out := make([]*Term, len(s.b))
	for i, b := range s.b {
		out[i] = m.lowerByte(b)
	}
	return StrV{out}
}

func (m *Machine) runeToLower(r *Term) *Term {
	st := m.st
	if r.op == OpConst {
		return st.Const(32, uint64(uint32(unicode.ToLower(rune(int32(r.k))))))
	}
	if m.branch(st.Bin(OpULe, r, st.Const(32, 0x7F))) {
		isUp := m.inRange(r, 'A', 'Z')
		res := st.Ite(isUp, st.Bin(OpAdd, r, st.Const(32, 32)), r)
		if res != r {
			if _, ok := m.getOrigin(res); !ok {
				m.setOrigin(res, []*Term{st.Trunc(res, 8)})
			}
		}
		return res
	}
	// non-ASCII: a term built from the real case tables of the Go release the engine is compiled
	// with (runs of code points with a constant delta; about 600 of them)
	res := r
	for _, run := range lowerRuns() {
		res = st.Ite(m.inRange(r, uint64(run.lo), uint64(run.hi)), st.Bin(OpAdd, r, st.Const(32, uint64(uint32(run.delta)))), res)
	}
	return res
}

type caseRun struct {
	lo, hi rune
	delta  int32
}

var lowerRunsCache []caseRun

func lowerRuns() []caseRun {
	if lowerRunsCache != nil {
		return lowerRunsCache
	}
	var runs []caseRun
	for r := rune(0x80); r <= 0x1FFFF; r++ {
		l := unicode.ToLower(r)
		if l == r {
			continue
		}
		d := int32(l - r)
		if n := len(runs); n > 0 && runs[n-1].hi == r-1 && runs[n-1].delta == d {
			runs[n-1].hi = r
		} else {
			runs = append(runs, caseRun{r, r, d})
		}
	}
	lowerRunsCache = runs
	return runs
}

// ---------------------------------------------------------------- strings.Builder

func (m *Machine) builderCell(recv Value) *Cell {
	p, ok := recv.(PtrV)
	if !ok || p.c == nil {
		m.goPanic("nil *strings.Builder")
	}
	// struct { addr *Builder; buf []byte }
	return p.c.kids[1]
}

func (m *Machine) builderGet(recv Value) StrV {
	c := m.builderCell(recv)
	if s, ok := c.v.(StrV); ok {
		return s
	}
	return StrV{}
}

func (m *Machine) builderSet(recv Value, s StrV) {
	c := m.builderCell(recv)
	m.noteWrite(c)
	c.v = s
}

func (m *Machine) builderAppend(recv Value, b []*Term) {
	old := m.builderGet(recv)
	nb := make([]*Term, 0, len(old.b)+len(b))
	nb = append(nb, old.b...)
	nb = append(nb, b...)
	m.builderSet(recv, StrV{nb})
}

// ---------------------------------------------------------------- strconv formatting

const digitChars = "0123456789abcdefghijklmnopqrstuvwxyz"

// formatInt formats v in the given base. Forks on sign and number of digits.
func (m *Machine) formatInt(v *Term, base int, signed bool) Value {
	st := m.st
	if base < 2 || base > 36 {
		m.goPanic("strconv: illegal AppendInt/FormatInt base")
	}
	if v.op == OpConst {
		if signed {
			return m.strConst(strconv.FormatInt(sext(v.k, v.w), base))
		}
		return m.strConst(strconv.FormatUint(v.k, base))
	}
	var prefix []*Term
	mag := v
	if signed {
		if m.branch(st.Bin(OpSLt, v, st.Const(v.w, 0))) {
			prefix = []*Term{st.Const(8, '-')}
			mag = st.Neg(v)
		}
	}
	// number of digits
	nd := 1
	pw := uint64(base)
	for {
		if pw > mask(mag.w) || nd > 20 {
			break
		}
		if m.branch(st.Bin(OpULt, mag, st.Const(mag.w, pw))) {
			break
		}
		nd++
		if pw > mask(mag.w)/uint64(base) {
			break
		}
		pw *= uint64(base)
	}
	// work at the narrowest sufficient width to keep division cheap
	// The branch decisions above put mag < base^nd into the path condition, so the digits can
	// be computed at the narrowest width that holds base^nd (dividers are expensive to bit-blast).
	work := mag
	lim := uint64(1)
	for i := 0; i < nd && lim < 1<<40; i++ {
		lim *= uint64(base)
	}
	for _, nw := range []uint8{8, 16, 32} {
		if nw < mag.w && lim <= mask(nw) {
			work = st.Trunc(mag, nw)
			break
		}
	}
	digits := make([]*Term, nd)
	div := uint64(1)
	for i := nd - 1; i >= 0; i-- {
		q := work
		if div > 1 {
			q = st.Bin(OpUDiv, work, st.Const(work.w, div))
		}
		d := st.Bin(OpURem, q, st.Const(work.w, uint64(base)))
		d8 := st.Trunc(d, 8)
		var ch *Term
		if base <= 10 {
			ch = st.Bin(OpAdd, d8, st.Const(8, '0'))
		} else {
			ch = st.Ite(st.Bin(OpULt, d8, st.Const(8, 10)), st.Bin(OpAdd, d8, st.Const(8, '0')), st.Bin(OpAdd, d8, st.Const(8, 'a'-10)))
		}
		digits[i] = ch
		div *= uint64(base)
	}
	return StrV{append(prefix, digits...)}
}

// ---------------------------------------------------------------- unicode

func (m *Machine) nativeRangeTable(v Value) *unicode.RangeTable {
	o, ok := v.(OpaqueV)
	if !ok {
		if p, isP := v.(PtrV); isP && p.c != nil {
			if oo, ok2 := p.c.v.(OpaqueV); ok2 {
				o = oo
				ok = true
			}
		}
	}
	if !ok || o.kind != "global" {
		m.unsupported("unicode.Is with a table that is not a package-level unicode table")
	}
	name := o.data.(string)
	name = strings.TrimPrefix(name, "unicode.")
	if t, ok := unicode.Properties[name]; ok {
		return t
	}
	if t, ok := unicode.Categories[name]; ok {
		return t
	}
	if t, ok := unicode.Scripts[name]; ok {
		return t
	}
	m.unsupported("unknown unicode table " + name)
	return nil
}

func (m *Machine) unicodeIs(tab Value, r *Term) Value {
	rt := m.nativeRangeTable(tab)
	st := m.st
	if r.op == OpConst {
		return st.Bool(unicode.Is(rt, rune(int32(r.k))))
	}
	res := st.False
	for _, rg := range rt.R16 {
		if rg.Stride != 1 {
			m.unsupported("unicode table with stride")
		}
		res = st.Or(res, m.inRange(r, uint64(rg.Lo), uint64(rg.Hi)))
	}
	for _, rg := range rt.R32 {
		if rg.Stride != 1 {
			m.unsupported("unicode table with stride")
		}
		res = st.Or(res, m.inRange(r, uint64(rg.Lo), uint64(rg.Hi)))
	}
	return res
}

// validUTF8 forks on the shape of the string like the decoder does.
func (m *Machine) validUTF8(b []*Term) Value {
	for i := 0; i < len(b); {
		before := len(m.origin)
		_ = before
		r, size := m.decodeRuneAt(b, i)
		if size == 1 && r.op == OpConst && r.k == 0xFFFD {
			// either an invalid byte or ... a 1-byte decode can never be a valid U+FFFD
			return m.st.False
		}
		i += size
	}
	return m.st.True
}

// ---------------------------------------------------------------- errors.Is

func (m *Machine) errorsIs(err, target IfaceV, caller *frame) Value {
	if err.t == nil || target.t == nil {
		return m.st.Bool(err.t == nil && target.t == nil)
	}
	for depth := 0; depth < 16; depth++ {
		eq := m.valuesEqual(err, target)
		if eq.op != OpConst {
			m.unsupported("errors.Is with symbolic comparison")
		}
		if eq.k != 0 {
			return m.st.True
		}
		ms := m.prog.MethodSets.MethodSet(err.t)
		sel := ms.Lookup(nil, "Unwrap")
		if sel == nil {
			return m.st.False
		}
		fn := m.prog.MethodValue(sel)
		if fn == nil || fn.Signature.Results().Len() != 1 {
			return m.st.False
		}
		next, ok := m.callFunction(fn, []Value{err.v}, nil, caller).(IfaceV)
		if !ok || next.t == nil {
			return m.st.False
		}
		err = next
	}
	m.unsupported("errors.Is chain too deep")
	return nil
}

// ---------------------------------------------------------------- net/url.PathUnescape

func (m *Machine) hexVal(c *Term) *Term {
	st := m.st
	dig := st.Bin(OpSub, c, st.Const(8, '0'))
	lo := st.Bin(OpSub, st.Bin(OpBOr, c, st.Const(8, 0x20)), st.Const(8, 'a'-10))
	return st.Ite(m.inRange(c, '0', '9'), dig, lo)
}

func (m *Machine) isHex(c *Term) *Term {
	st := m.st
	return st.Or(m.inRange(c, '0', '9'), st.Or(m.inRange(c, 'a', 'f'), m.inRange(c, 'A', 'F')))
}

func (m *Machine) pathUnescape(s StrV) Value {
	if cs, ok := s.concrete(); ok {
		r, err := neturl.PathUnescape(cs)
		if err != nil {
			return TupleV{m.strConst(""), m.opaqueError("url.EscapeError")}
		}
		return TupleV{m.strConst(r), IfaceV{}}
	}
	// general symbolic case: scan; '%' must be followed by two hex digits
	var out []*Term
	for i := 0; i < len(s.b); {
		if m.branch(m.st.Eq(s.b[i], m.st.Const(8, '%'))) {
			if i+2 >= len(s.b) || !m.branch(m.st.And(m.isHex(s.b[i+1]), m.isHex(s.b[i+2]))) {
				return TupleV{m.strConst(""), m.opaqueError("url.EscapeError")}
			}
			v := m.st.Bin(OpBOr, m.st.Bin(OpShl, m.hexVal(s.b[i+1]), m.st.Const(8, 4)), m.hexVal(s.b[i+2]))
			out = append(out, v)
			i += 3
		} else {
			out = append(out, s.b[i])
			i++
		}
	}
	return TupleV{StrV{out}, IfaceV{}}
}

// ---------------------------------------------------------------- sort.SliceStable

// sort.Slice / sort.SliceStable: the reflection-based wrappers are replaced, the sorting
// algorithms themselves (sort.pdqsort_func / sort.stable_func) are executed from the library's
// source with the caller's less closure and an engine-provided swapper, so that stability and
// the exact permutation are the real library's for any length.
func (m *Machine) sortSliceStable(x Value, less FuncV, caller *frame) { m.sortSlice(x, less, caller, true) }

func (m *Machine) sortSlice(x Value, less FuncV, caller *frame, stable bool) {
	iv, ok := x.(IfaceV)
	if !ok {
		m.unsupported("sort.Slice argument")
	}
	s, ok := iv.v.(SliceV)
	if !ok {
		m.unsupported("sort.Slice of non-slice")
	}
	n := s.len
	swap := FuncV{native: func(m *Machine, args []Value) Value {
		i := m.concreteInt(args[0].(*Term), "swap index")
		j := m.concreteInt(args[1].(*Term), "swap index")
		if i < 0 || j < 0 || i >= n || j >= n {
			m.goPanic("reflect: slice index out of range (swap)")
		}
		a, b := s.arr.cells[s.off+i], s.arr.cells[s.off+j]
		va, vb := m.loadCell(a), m.loadCell(b)
		m.storeCell(a, vb)
		m.storeCell(b, va)
		return nil
	}}
	pkg := m.prog.ImportedPackage("sort")
	if pkg == nil {
		m.unsupported("package sort not loaded")
	}
	ls := StructV{f: []Value{less, swap}}
	if stable {
		fn := pkg.Func("stable_func")
		if fn == nil {
			m.unsupported("sort.stable_func not found")
		}
		m.callFunction(fn, []Value{ls, m.st.Const(64, uint64(n))}, nil, caller)
		return
	}
	fn := pkg.Func("pdqsort_func")
	if fn == nil {
		m.unsupported("sort.pdqsort_func not found")
	}
	limit := 0
	for v := uint(n); v != 0; v >>= 1 {
		limit++
	}
	m.callFunction(fn, []Value{ls, m.st.Const(64, 0), m.st.Const(64, uint64(n)), m.st.Const(64, uint64(limit))}, nil, caller)
}

// ---------------------------------------------------------------- regexp stub

// regexpReplaceAll models (`\.\.+`).ReplaceAllString(s, "."): every run of two or more
// dots becomes one dot. Any other pattern is unsupported.
func (m *Machine) regexpReplaceAll(re Value, s, repl StrV) Value {
	o, ok := re.(OpaqueV)
	if !ok || o.kind != "regexp" {
		if p, isP := re.(PtrV); isP && p.c != nil {
			o, ok = p.c.v.(OpaqueV)
		}
	}
	if !ok || o.kind != "regexp" || o.data.(string) != `\.\.+` {
		m.unsupported("regexp other than `\\.\\.+`")
	}
	if r, ok := repl.concrete(); !ok || r != "." {
		m.unsupported("regexp replacement other than \".\"")
	}
	dot := m.st.Const(8, '.')
	var out []*Term
	prevDot := false
	for _, b := range s.b {
		if m.branch(m.st.Eq(b, dot)) {
			if !prevDot {
				out = append(out, dot)
			}
			prevDot = true
		} else {
			out = append(out, b)
			prevDot = false
		}
	}
	return StrV{out}
}

// ---------------------------------------------------------------- idna stub

// idnaToASCII: contract of (*idna.Profile).ToASCII for the repository's profile on
// ASCII input without ACE labels: result = ASCII-lowercased input, error unconstrained.
// Anything else ends the path as outside the bound.
func (m *Machine) idnaToASCII(s StrV, errContract bool) Value {
	st := m.st
	nonASCII := st.False
	for _, b := range s.b {
		nonASCII = st.Or(nonASCII, st.Bin(OpULe, st.Const(8, 0x80), b))
	}
	if m.branch(nonASCII) {
		m.stats.outsideIDNA++
		panic(&pathEnd{endOutside, "IDNA: non-ASCII domain"})
	}
	ace := st.False
	n := len(s.b)
	for i := 0; i+4 <= n; i++ {
		start := st.True
		if i > 0 {
			start = st.Eq(s.b[i-1], st.Const(8, '.'))
		}
		c := st.And(start, st.And(
			st.And(st.Eq(m.lowerByte(s.b[i]), st.Const(8, 'x')), st.Eq(m.lowerByte(s.b[i+1]), st.Const(8, 'n'))),
			st.And(st.Eq(s.b[i+2], st.Const(8, '-')), st.Eq(s.b[i+3], st.Const(8, '-')))))
		ace = st.Or(ace, c)
	}
	if m.branch(ace) {
		m.stats.outsideIDNA++
		panic(&pathEnd{endOutside, "IDNA: ACE label"})
	}
	out := make([]*Term, n)
	for i, b := range s.b {
		out[i] = m.lowerByte(b)
	}
	var e *Term
	if errContract {
		// validated contract for the repository's exact profile options: an error is reported
		// exactly when some byte is outside [A-Za-z0-9.-]
		e = st.False
		for _, b := range s.b {
			ldh := st.Or(st.Or(m.inRange(b, 'a', 'z'), m.inRange(b, 'A', 'Z')), st.Or(m.inRange(b, '0', '9'), st.Or(st.Eq(b, st.Const(8, '-')), st.Eq(b, st.Const(8, '.')))))
			e = st.Or(e, st.Not(ldh))
		}
	} else {
		// unconstrained error -- but a function of the input: the same text gets the same answer
		var kb strings.Builder
		for _, b := range s.b {
			fmt.Fprintf(&kb, "%d.", b.id)
		}
		var seen bool
		e, seen = m.idnaErr[kb.String()]
		if !seen {
			e = m.newInput(0, 0)
			m.idnaErr[kb.String()] = e
		}
	}
	if m.branch(e) {
		return TupleV{StrV{out}, m.opaqueError("idna")}
	}
	return TupleV{StrV{out}, IfaceV{}}
}

// idnaRawToASCII: idna.Punycode (the raw profile: no mapping, no validation) on ASCII input without
// ACE labels is the identity and reports no error (validated by the selftest).
func (m *Machine) idnaRawToASCII(s StrV) Value {
	st := m.st
	nonASCII := st.False
	for _, b := range s.b {
		nonASCII = st.Or(nonASCII, st.Bin(OpULe, st.Const(8, 0x80), b))
	}
	if m.branch(nonASCII) {
		m.stats.outsideIDNA++
		panic(&pathEnd{endOutside, "IDNA: non-ASCII domain"})
	}
	ace := st.False
	n := len(s.b)
	for i := 0; i+4 <= n; i++ {
		start := st.True
		if i > 0 {
			start = st.Eq(s.b[i-1], st.Const(8, '.'))
		}
		c := st.And(start, st.And(
			st.And(st.Eq(m.lowerByte(s.b[i]), st.Const(8, 'x')), st.Eq(m.lowerByte(s.b[i+1]), st.Const(8, 'n'))),
			st.And(st.Eq(s.b[i+2], st.Const(8, '-')), st.Eq(s.b[i+3], st.Const(8, '-')))))
		ace = st.Or(ace, c)
	}
	if m.branch(ace) {
		m.stats.outsideIDNA++
		panic(&pathEnd{endOutside, "IDNA: ACE label"})
	}
	return TupleV{s, IfaceV{}}
}

// ---------------------------------------------------------------- charmap

func (m *Machine) nativeCharmap(v Value) *charmap.Charmap {
	o, ok := v.(OpaqueV)
	if !ok {
		if p, isP := v.(PtrV); isP && p.c != nil {
			o, ok = p.c.v.(OpaqueV)
		}
	}
	if !ok || o.kind != "global" {
		m.unsupported("charmap receiver is not a package-level charmap")
	}
	name := strings.TrimPrefix(o.data.(string), "golang.org/x/text/encoding/charmap.")
	for _, e := range charmap.All {
		if cm, ok := e.(*charmap.Charmap); ok && strings.ReplaceAll(cm.String(), " ", "") == strings.ReplaceAll(name, "_", "") {
			return cm
		}
	}
	switch name {
	case "ISO8859_1":
		return charmap.ISO8859_1
	case "Windows1252":
		return charmap.Windows1252
	}
	m.unsupported("unknown charmap " + name)
	return nil
}

func (m *Machine) charmapEncodeRune(recv Value, r *Term) Value {
	cm := m.nativeCharmap(recv)
	st := m.st
	if r.op == OpConst {
		b, ok := cm.EncodeRune(rune(int32(r.k)))
		return TupleV{st.Const(8, uint64(b)), st.Bool(ok)}
	}
	identity := true
	for i := 0; i < 256; i++ {
		if cm.DecodeByte(byte(i)) != rune(i) {
			identity = false
			break
		}
	}
	if !identity {
		m.unsupported("symbolic EncodeRune on a non-identity charmap")
	}
	ok := st.Bin(OpULt, r, st.Const(32, 256))
	// encoding.ASCIISub = 0x1A when not representable
	b := st.Ite(ok, st.Trunc(r, 8), st.Const(8, 0x1A))
	return TupleV{b, ok}
}

func (m *Machine) charmapDecodeByte(recv Value, b *Term) Value {
	cm := m.nativeCharmap(recv)
	st := m.st
	if b.op == OpConst {
		return st.Const(32, uint64(uint32(cm.DecodeByte(byte(b.k)))))
	}
	ts := make([]*Term, 256)
	identity := true
	for i := 0; i < 256; i++ {
		r := cm.DecodeByte(byte(i))
		if r != rune(i) {
			identity = false
		}
		ts[i] = st.Const(32, uint64(uint32(r)))
	}
	if identity {
		return st.ZExt(b, 32)
	}
	return m.selectTerm(ts, b)
}

var _ = fmt.Sprintf

// ---- native mirror of the repository's idna profile (for concrete inputs only) ----

// idnaMirror: the native mirror of the repository's idna profile. validated: the options are
// exactly those for which the error contract of the stub was validated (7.5M strings, 0 deviations):
// for ASCII input without ACE labels ToASCII returns the ASCII-lowercased input and reports an
// error exactly when some byte is outside [A-Za-z0-9.-].
type idnaMirror struct {
	prof      *idna.Profile
	validated bool
}

const validatedIdnaSig = "MapForLookup(false);BidiRule(false);VerifyDNSLength(false);StrictDomainName(true);ValidateLabels(true);CheckHyphens(false);CheckJoiners(true);Transitional(false);"

type idnaOpt struct {
	name string
	arg  bool
	has  bool
}

// idnaConstruct mirrors idna option constructors and idna.New: the options the repository's
// source passes are recorded by name and a native profile with the same options is built, so
// that ToASCII of a concrete string is computed by the real library instead of the stub.
func (m *Machine) idnaConstruct(fn *ssa.Function, args []Value) Value {
	name := fn.Name()
	if name == "New" {
		var opts []idna.Option
		okAll := true
		sig := ""
		if len(args) == 1 {
			if sl, ok := args[0].(SliceV); ok {
				for i := 0; i < sl.len; i++ {
					v := m.loadCell(sl.arr.cells[sl.off+i])
					o, ok := v.(OpaqueV)
					if !ok || o.kind != "idnaopt" {
						okAll = false
						break
					}
					io := o.data.(idnaOpt)
					sig += fmt.Sprintf("%s(%v);", io.name, io.arg)
					switch io.name {
					case "MapForLookup":
						opts = append(opts, idna.MapForLookup())
					case "ValidateForRegistration":
						opts = append(opts, idna.ValidateForRegistration())
					case "BidiRule":
						opts = append(opts, idna.BidiRule())
					case "VerifyDNSLength":
						opts = append(opts, idna.VerifyDNSLength(io.arg))
					case "StrictDomainName":
						opts = append(opts, idna.StrictDomainName(io.arg))
					case "ValidateLabels":
						opts = append(opts, idna.ValidateLabels(io.arg))
					case "CheckHyphens":
						opts = append(opts, idna.CheckHyphens(io.arg))
					case "CheckJoiners":
						opts = append(opts, idna.CheckJoiners(io.arg))
					case "Transitional":
						opts = append(opts, idna.Transitional(io.arg))
					case "RemoveLeadingDots":
						opts = append(opts, idna.RemoveLeadingDots(io.arg))
					default:
						okAll = false
					}
				}
			} else {
				okAll = false
			}
		}
		if okAll {
			return OpaqueV{kind: "idnaprofile", data: &idnaMirror{prof: idna.New(opts...), validated: sig == validatedIdnaSig}}
		}
		return OpaqueV{kind: "idnaprofile", data: &idnaMirror{}}
	}
	io := idnaOpt{name: name}
	if len(args) == 1 {
		if t, ok := args[0].(*Term); ok && t.op == OpConst {
			io.arg = t.k != 0
			io.has = true
		}
	}
	return OpaqueV{kind: "idnaopt", data: io}
}

func (m *Machine) idnaToASCIIRecv(recv Value, s StrV) Value {
	o, isO := recv.(OpaqueV)
	if !isO {
		if p, isP := recv.(PtrV); isP && p.c != nil {
			o, isO = p.c.v.(OpaqueV)
		}
	}
	var mir *idnaMirror
	if isO && o.kind == "idnaprofile" {
		mir, _ = o.data.(*idnaMirror)
	}
	if isO && o.kind == "global" {
		// one of x/net/idna's predefined profiles, used directly
		name, _ := o.data.(string)
		var prof *idna.Profile
		switch strings.TrimPrefix(name, "golang.org/x/net/idna.") {
		case "Punycode":
			prof = idna.Punycode
		case "Lookup":
			prof = idna.Lookup
		case "Display":
			prof = idna.Display
		case "Registration":
			prof = idna.Registration
		}
		if prof == nil {
			m.unsupported("idna profile " + name)
		}
		if _, ok := s.concrete(); !ok {
			if prof != idna.Punycode {
				m.unsupported("symbolic input to predefined idna profile " + name)
			}
			return m.idnaRawToASCII(s)
		}
		mir = &idnaMirror{prof: prof}
	}
	if cs, ok := s.concrete(); ok && mir != nil && mir.prof != nil {
		a, err := mir.prof.ToASCII(cs)
		if err != nil {
			return TupleV{m.strConst(a), m.opaqueError("idna")}
		}
		return TupleV{m.strConst(a), IfaceV{}}
	}
	return m.idnaToASCII(s, mir != nil && mir.validated)
}
