package main

// selftest: translator validation. The repository's own WPT vectors are pushed
// through the interpreter concretely; the getters computed by the engine must
// equal the expected fields of the vectors (which the native test suite also
// asserts), so interpreter/intrinsic bugs show up without any solver involvement.

import (
	"encoding/json"
	"flag"
	"fmt"
	"os"
	"path/filepath"
	"strings"

	"golang.org/x/net/idna"
)

type wptVector struct {
	Input    string  `json:"input"`
	Base     *string `json:"base"`
	Failure  bool    `json:"failure"`
	Href     string  `json:"href"`
	Protocol string  `json:"protocol"`
	Username string  `json:"username"`
	Password string  `json:"password"`
	Host     string  `json:"host"`
	Hostname string  `json:"hostname"`
	Port     string  `json:"port"`
	Pathname string  `json:"pathname"`
	Search   string  `json:"search"`
	Hash     string  `json:"hash"`
}

func obsMap(obs []string) map[string]string {
	mm := map[string]string{}
	for _, o := range obs {
		p := strings.SplitN(o, "=", 2)
		if len(p) != 2 {
			continue
		}
		b := make([]byte, len(p[1])/2)
		for j := range b {
			var v int
			fmt.Sscanf(p[1][2*j:2*j+2], "%02x", &v)
			b[j] = byte(v)
		}
		mm[p[0]] = string(b)
	}
	return mm
}

// runAllPaths explores a harness with concrete inputs on one machine and returns all terminal paths.
func runAllPaths(m *Machine, l *Loaded, name string, inputs map[string]string) ([]PathResult, error) {
	fn, err := findHarness(l, name)
	if err != nil {
		return nil, err
	}
	m.concreteInputs = inputs
	queue := []WorkItem{{}}
	var out []PathResult
	for len(queue) > 0 {
		it := queue[len(queue)-1]
		queue = queue[:len(queue)-1]
		r, sibs := m.runPath(fn, name, it)
		queue = append(queue, sibs...)
		out = append(out, r)
		if len(out) > 64 {
			break
		}
	}
	return out, nil
}

func cmdSelftest(args []string) int {
	fs := flag.NewFlagSet("selftest", flag.ExitOnError)
	var rc runConfig
	rc.flags(fs)
	limit := fs.Int("limit", 0, "only the first N vectors")
	fs.Parse(args)
	rc.finish()
	rc.workers = 1
	l, e, ms, err := setup(&rc)
	if err != nil {
		fmt.Fprintln(os.Stderr, "setup:", err)
		return 2
	}
	defer closeMachines(ms)
	_ = e
	m := ms[0]
	bad := 0

	// ---- parse vectors
	raw, err := os.ReadFile(filepath.Join(repoDir(), "testdata", "urltestdata.json"))
	if err != nil {
		fmt.Fprintln(os.Stderr, err)
		return 2
	}
	var items []json.RawMessage
	if err := json.Unmarshal(raw, &items); err != nil {
		fmt.Fprintln(os.Stderr, err)
		return 2
	}
	nvec, nok, nout := 0, 0, 0
	for _, it := range items {
		if len(it) > 0 && it[0] == '"' {
			continue
		}
		var v wptVector
		if err := json.Unmarshal(it, &v); err != nil {
			continue
		}
		nvec++
		if *limit > 0 && nvec > *limit {
			break
		}
		base := ""
		if v.Base != nil {
			base = *v.Base
		}
		paths, err := runAllPaths(m, l, "url.VerifSelfParse", map[string]string{"base": base, "input": v.Input})
		if err != nil {
			fmt.Fprintln(os.Stderr, err)
			return 2
		}
		vecOK := true
		outside := false
		for _, p := range paths {
			switch p.End {
			case endOutside:
				outside = true
				continue
			case endOK:
			default:
				vecOK = false
				fmt.Printf("SELFTEST parse #%d input=%q base=%q: path ended %s: %s\n", nvec, v.Input, base, p.End, p.Msg)
				continue
			}
			o := obsMap(p.Observes)
			if (o["failure"] == "1") != v.Failure {
				vecOK = false
				fmt.Printf("SELFTEST parse #%d input=%q base=%q: failure=%s want %v\n", nvec, v.Input, base, o["failure"], v.Failure)
				continue
			}
			if v.Failure {
				continue
			}
			want := map[string]string{"href": v.Href, "protocol": v.Protocol, "username": v.Username, "password": v.Password, "host": v.Host, "hostname": v.Hostname, "port": v.Port, "pathname": v.Pathname, "search": v.Search, "hash": v.Hash}
			for k, w := range want {
				if o[k] != w {
					vecOK = false
					fmt.Printf("SELFTEST parse #%d input=%q base=%q: %s=%q want %q\n", nvec, v.Input, base, k, o[k], w)
				}
			}
		}
		if outside {
			nout++
		}
		if vecOK {
			nok++
		} else {
			bad++
		}
	}
	fmt.Printf("selftest parse vectors: %d vectors, %d agree on every explored path, %d touch the IDNA bound, %d disagree\n", nvec, nok, nout, bad)

	// ---- setter vectors
	raw, err = os.ReadFile(filepath.Join(repoDir(), "testdata", "setters_tests.json"))
	if err == nil {
		var sets map[string]json.RawMessage
		json.Unmarshal(raw, &sets)
		type setCase struct {
			Href     string            `json:"href"`
			NewValue string            `json:"new_value"`
			Expected map[string]string `json:"expected"`
		}
		ns, nsok, nsout := 0, 0, 0
		for _, setter := range []string{"protocol", "username", "password", "host", "hostname", "port", "pathname", "search", "hash"} {
			var cases []setCase
			if err := json.Unmarshal(sets[setter], &cases); err != nil {
				continue
			}
			for _, c := range cases {
				ns++
				paths, err := runAllPaths(m, l, "url.VerifSelfSetter", map[string]string{"href": c.Href, "setter": setter, "value": c.NewValue})
				if err != nil {
					fmt.Fprintln(os.Stderr, err)
					return 2
				}
				ok := true
				outside := false
				for _, p := range paths {
					if p.End == endOutside {
						outside = true
						continue
					}
					if p.End != endOK {
						ok = false
						fmt.Printf("SELFTEST setter %s href=%q value=%q: path ended %s: %s\n", setter, c.Href, c.NewValue, p.End, p.Msg)
						continue
					}
					o := obsMap(p.Observes)
					for k, w := range c.Expected {
						if o[k] != w {
							ok = false
							fmt.Printf("SELFTEST setter %s href=%q value=%q: %s=%q want %q\n", setter, c.Href, c.NewValue, k, o[k], w)
						}
					}
				}
				if outside {
					nsout++
				}
				if ok {
					nsok++
				} else {
					bad++
				}
			}
		}
		fmt.Printf("selftest setter vectors: %d vectors, %d agree, %d touch the IDNA bound\n", ns, nsok, nsout)
	}
	// ---- IDNA stub contract against the real library (options mirrored from url/hostparser.go)
	if n, dev, ok := m.validateIdnaContract(); ok {
		fmt.Printf("selftest idna stub contract: %d ASCII strings without ACE labels, %d deviations (result = ASCII-lowercase; error <=> some byte outside [A-Za-z0-9.-])\n", n, dev)
		bad += dev
	} else {
		fmt.Println("selftest idna stub contract: profile options differ from the validated configuration; the stub leaves the error unconstrained")
	}
	if bad > 0 {
		fmt.Printf("SELFTEST FAILED: %d vectors disagree\n", bad)
		return 1
	}
	fmt.Println("SELFTEST OK")
	return 0
}

func (m *Machine) validateIdnaContract() (n, dev int, ok bool) {
	var mir *idnaMirror
	for g, c := range m.globals {
		if g.Name() == "idnaProfile" && g.Pkg != nil && g.Pkg.Pkg.Path() == modPath+"/url" {
			if o, isO := c.v.(OpaqueV); isO && o.kind == "idnaprofile" {
				mir, _ = o.data.(*idnaMirror)
			}
		}
	}
	if mir == nil || mir.prof == nil || !mir.validated {
		return 0, 0, false
	}
	ldh := func(b byte) bool {
		return (b >= 'a' && b <= 'z') || (b >= 'A' && b <= 'Z') || (b >= '0' && b <= '9') || b == '-' || b == '.'
	}
	check := func(s string) {
		l := strings.ToLower(s)
		for i := 0; i+4 <= len(l); i++ {
			if (i == 0 || l[i-1] == '.') && l[i:i+4] == "xn--" {
				return
			}
		}
		// the raw Punycode profile: identity, no error
		if ra, rerr := idna.Punycode.ToASCII(s); ra != s || rerr != nil {
			dev++
			if dev < 5 {
				fmt.Printf("IDNA RAW CONTRACT DEVIATION %q -> %q err=%v\n", s, ra, rerr)
			}
		}
		a, err := mir.prof.ToASCII(s)
		pred := false
		for i := 0; i < len(s); i++ {
			if !ldh(s[i]) {
				pred = true
			}
		}
		n++
		if (err != nil) != pred || a != l {
			dev++
			if dev < 5 {
				fmt.Printf("IDNA CONTRACT DEVIATION %q -> %q err=%v\n", s, a, err)
			}
		}
	}
	for a := 0; a < 128; a++ {
		check(string([]byte{byte(a)}))
		for b := 0; b < 128; b++ {
			check(string([]byte{byte(a), byte(b)}))
		}
	}
	alpha := "aZ0-._xn!"
	var rec func(p string, d int)
	rec = func(p string, d int) {
		check(p)
		if d == 0 {
			return
		}
		for i := 0; i < len(alpha); i++ {
			rec(p+string(alpha[i]), d-1)
		}
	}
	rec("", 5)
	return n, dev, true
}
