package main

// Wide-variable domains: for a symbolic variable wider than a byte (a rune, a 16-bit port or IPv6
// piece, a 32/64-bit integer) the path keeps a set of disjoint unsigned intervals that
// over-approximates the values the path condition allows. It is refined by every asserted literal
// that compares the variable (possibly zero- or sign-extended) with constants, and it is used -
// like the per-byte domains - only as a sound pre-filter that shows a branch side infeasible
// without a solver call; the literals themselves are still asserted to the solver, and property
// obligations never use it.

import "sort"

type ivset []iv // sorted, disjoint, non-adjacent

func (s ivset) norm() ivset {
	if len(s) <= 1 {
		return s
	}
	sort.Slice(s, func(i, j int) bool { return s[i].lo < s[j].lo })
	out := s[:1]
	for _, x := range s[1:] {
		l := &out[len(out)-1]
		if x.lo <= l.hi || (l.hi != ^uint64(0) && x.lo == l.hi+1) {
			if x.hi > l.hi {
				l.hi = x.hi
			}
		} else {
			out = append(out, x)
		}
	}
	return out
}

func ivIntersect(a, b ivset) ivset {
	var out ivset
	i, j := 0, 0
	for i < len(a) && j < len(b) {
		lo, hi := a[i].lo, a[i].hi
		if b[j].lo > lo {
			lo = b[j].lo
		}
		if b[j].hi < hi {
			hi = b[j].hi
		}
		if lo <= hi {
			out = append(out, iv{lo, hi})
		}
		if a[i].hi < b[j].hi {
			i++
		} else {
			j++
		}
	}
	return out
}

func ivUnion(a, b ivset) ivset {
	out := make(ivset, 0, len(a)+len(b))
	out = append(out, a...)
	out = append(out, b...)
	return out.norm()
}

func ivComplement(a ivset, max uint64) ivset {
	var out ivset
	next := uint64(0)
	done := false
	for _, x := range a {
		if x.lo > next {
			out = append(out, iv{next, x.lo - 1})
		}
		if x.hi >= max {
			done = true
			break
		}
		next = x.hi + 1
	}
	if !done && next <= max {
		out = append(out, iv{next, max})
	}
	return out
}

func ivSubset(a, b ivset) bool { // a ⊆ b
	j := 0
	for _, x := range a {
		for j < len(b) && b[j].hi < x.lo {
			j++
		}
		if j >= len(b) || b[j].lo > x.lo || b[j].hi < x.hi {
			return false
		}
	}
	return true
}

// piece: on var values [lo,hi] the expression's value is x+addU as an unsigned number and
// int64(x)+addS as a signed number.
type wpiece struct {
	lo, hi uint64
	addU   uint64
	addS   int64
}

// wideExpr recognises Var, ZExt(Var), SExt(Var) over variable v and returns the pieces.
func (m *Machine) wideExpr(e *Term, v int32) ([]wpiece, bool) {
	ext := OpVar
	x := e
	if e.op == OpZExt || e.op == OpSExt {
		ext = e.op
		x = e.a
	}
	if x.op != OpVar || int32(x.k) != v {
		return nil, false
	}
	n := x.w
	if n == 0 || n > 64 {
		return nil, false
	}
	w := e.w
	if n == 64 {
		half := uint64(1) << 63
		return []wpiece{{0, half - 1, 0, 0}, {half, ^uint64(0), 0, 0}}, true
	}
	full := mask(n)
	half := uint64(1) << (n - 1)
	switch {
	case ext == OpVar || w == n:
		return []wpiece{{0, half - 1, 0, 0}, {half, full, 0, -(int64(1) << n)}}, true
	case ext == OpZExt:
		return []wpiece{{0, full, 0, 0}}, true
	default: // SExt n -> w, w > n
		up := (mask(w) - full) // 2^w - 2^n
		return []wpiece{{0, half - 1, 0, 0}, {half, full, up, -(int64(1) << n)}}, true
	}
}

func signedOf(k uint64, w uint8) int64 {
	if w >= 64 {
		return int64(k)
	}
	if k&(uint64(1)<<(w-1)) != 0 {
		return int64(k) - (int64(1) << w)
	}
	return int64(k)
}

// cmpSet: values x of the variable with value(e(x)) <= k (le) or < k, unsigned or signed.
func cmpLeSet(ps []wpiece, k uint64, w uint8, signed, strict bool) ivset {
	var out ivset
	for _, p := range ps {
		if !signed {
			// x + addU (<|<=) k
			if p.lo+p.addU > k || (strict && p.lo+p.addU == k) {
				continue
			}
			lim := k - p.addU
			if strict {
				lim--
			}
			hi := p.hi
			if lim < hi {
				hi = lim
			}
			out = append(out, iv{p.lo, hi})
		} else {
			ks := signedOf(k, w)
			lo := int64(p.lo) + p.addS
			if lo > ks || (strict && lo == ks) {
				continue
			}
			lim := ks - p.addS // bound on int64(x)
			if strict {
				lim--
			}
			hi := p.hi
			if p.addS == 0 && p.lo >= uint64(1)<<63 {
				// 64-bit variable, upper half: int64(x) is negative, order preserved
				if uint64(lim) < hi {
					hi = uint64(lim)
				}
			} else if lim < 0 {
				continue
			} else if uint64(lim) < hi {
				hi = uint64(lim)
			}
			out = append(out, iv{p.lo, hi})
		}
	}
	return out.norm()
}

// condSet: the set of values of variable v for which c holds, if c is built from comparisons of
// v (plain or extended) with constants by and/or/not.
func (m *Machine) condSet(c *Term, v int32, depth int) (ivset, bool) {
	vw := m.st.vars[v].w
	max := mask(vw)
	if depth > 48 {
		return nil, false
	}
	switch c.op {
	case OpConst:
		if c.k != 0 {
			return ivset{{0, max}}, true
		}
		return nil, true
	case OpNot:
		a, ok := m.condSet(c.a, v, depth+1)
		if !ok {
			return nil, false
		}
		return ivComplement(a, max), true
	case OpAnd, OpOr:
		a, ok := m.condSet(c.a, v, depth+1)
		if !ok {
			return nil, false
		}
		b, ok := m.condSet(c.b, v, depth+1)
		if !ok {
			return nil, false
		}
		if c.op == OpAnd {
			return ivIntersect(a, b), true
		}
		return ivUnion(a, b), true
	case OpEq, OpULt, OpULe, OpSLt, OpSLe:
		if c.a.w == 0 {
			return nil, false
		}
		var e *Term
		var k uint64
		constLeft := false
		switch {
		case c.b.op == OpConst:
			e, k = c.a, c.b.k
		case c.a.op == OpConst:
			e, k = c.b, c.a.k
			constLeft = true
		default:
			return nil, false
		}
		ps, ok := m.wideExpr(e, v)
		if !ok {
			return nil, false
		}
		w := e.w
		all := ivset{{0, max}}
		switch c.op {
		case OpEq:
			le := cmpLeSet(ps, k, w, false, false)
			lt := cmpLeSet(ps, k, w, false, true)
			return ivIntersect(le, ivComplement(lt, max)), true
		case OpULt, OpULe, OpSLt, OpSLe:
			signed := c.op == OpSLt || c.op == OpSLe
			strict := c.op == OpULt || c.op == OpSLt
			if !constLeft {
				// e < k  /  e <= k
				return ivIntersect(all, cmpLeSet(ps, k, w, signed, strict)), true
			}
			// k < e  <=>  not (e <= k);   k <= e  <=>  not (e < k)
			return ivComplement(cmpLeSet(ps, k, w, signed, !strict), max), true
		}
	}
	return nil, false
}

func (m *Machine) singleWideVar(c *Term) (int32, bool) {
	if c.many || c.v1 < 0 || c.v2 >= 0 {
		return -1, false
	}
	if m.st.vars[c.v1].w <= 8 {
		return -1, false
	}
	return c.v1, true
}

func (m *Machine) wideDomain(v int32) ivset {
	if d, ok := m.wdom[v]; ok {
		return d
	}
	return ivset{{0, mask(m.st.vars[v].w)}}
}

// refineWide narrows the variable's domain by an asserted literal (if it has a recognised shape).
func (m *Machine) refineWide(l *Term) {
	v, ok := m.singleWideVar(l)
	if !ok {
		return
	}
	s, ok := m.condSet(l, v, 0)
	if !ok {
		return
	}
	m.wdom[v] = ivIntersect(m.wideDomain(v), s)
}

// wideImply: +1 if c holds for every value of the domain, -1 if for none, 0 otherwise/unknown.
func (m *Machine) wideImply(c *Term) int {
	v, ok := m.singleWideVar(c)
	if !ok {
		return 0
	}
	s, ok := m.condSet(c, v, 0)
	if !ok {
		return 0
	}
	d := m.wideDomain(v)
	if len(d) == 0 {
		return 0 // the path is infeasible anyway; let the solver say so
	}
	if ivSubset(d, s) {
		return 1
	}
	if len(ivIntersect(d, s)) == 0 {
		return -1
	}
	return 0
}

// ---- byte cuts
//
// A condition over one wide variable often sees it only through byte-sized sub-terms (the bytes of
// its UTF-8 encoding, a hex digit of one of those bytes, ...). Treating each such sub-term as a free
// byte within its interval over-approximates the values it can take, so a condition that has the
// same truth value for every combination has that value on the path. Sound for "infeasible side"
// conclusions only, like every other fact.

func (m *Machine) findCuts(c *Term, v int32) ([]*Term, bool) {
	type res struct {
		cuts []*Term
		ok   bool
	}
	memo := map[*Term]res{}
	var visit func(t *Term) res
	visit = func(t *Term) res {
		if t.v1 < 0 {
			return res{nil, true} // constant sub-term
		}
		if t.op == OpVar {
			return res{nil, false}
		}
		if r, ok := memo[t]; ok {
			return r
		}
		var cuts []*Term
		ok := true
		for _, k := range [3]*Term{t.a, t.b, t.c} {
			if k == nil {
				continue
			}
			r := visit(k)
			if !r.ok {
				ok = false
				break
			}
			for _, x := range r.cuts {
				dup := false
				for _, y := range cuts {
					if x == y {
						dup = true
					}
				}
				if !dup {
					cuts = append(cuts, x)
				}
			}
		}
		var r res
		switch {
		case ok && len(cuts) <= 3:
			r = res{cuts, true}
		case t.w > 0 && t.w <= 8:
			// the lowest byte-sized term above the variable on this branch
			r = res{[]*Term{t}, true}
		default:
			r = res{nil, false}
		}
		memo[t] = r
		return r
	}
	r := visit(c)
	return r.cuts, r.ok && len(r.cuts) > 0
}

func (m *Machine) cutImply(c *Term) int {
	v, ok := m.singleWideVar(c)
	if !ok {
		return 0
	}
	cuts, ok := m.findCuts(c, v)
	if !ok {
		return 0
	}
	ivs := make([]iv, len(cuts))
	total := uint64(1)
	for i, t := range cuts {
		ivs[i] = m.interval(t, 0)
		if ivs[i].hi > mask(t.w) {
			ivs[i].hi = mask(t.w)
		}
		if ivs[i].lo > ivs[i].hi {
			return 0
		}
		total *= ivs[i].hi - ivs[i].lo + 1
		if total > 4096 {
			return 0
		}
	}
	vals := make([]uint64, len(cuts))
	for i := range vals {
		vals[i] = ivs[i].lo
	}
	sawT, sawF := false, false
	for {
		if m.st.EvalCut(c, m.env, cuts, vals) != 0 {
			sawT = true
		} else {
			sawF = true
		}
		if sawT && sawF {
			return 0
		}
		i := 0
		for i < len(vals) {
			vals[i]++
			if vals[i] <= ivs[i].hi {
				break
			}
			vals[i] = ivs[i].lo
			i++
		}
		if i == len(vals) {
			break
		}
	}
	if sawT {
		return 1
	}
	return -1
}
