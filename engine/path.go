package main

import (
	"fmt"
	"os"
	"sync"
	"time"
	"go/types"
	"unicode/utf8"

	"golang.org/x/tools/go/ssa"
)

type Options struct {
	summaries  bool
	prefilter  bool // domain facts may prune infeasible branch sides
	stepBudget int
	tier       string
}

type ndItem struct {
	K string `json:"k"`
	V uint64 `json:"v"`
	S []int  `json:"s,omitempty"`
	// engine side: the terms
	terms []*Term
}

type obsRec struct {
	name string
	val  Value // StrV | *Term
}

type WorkItem struct {
	dbgConds []*Term
	prefix []int32
	model  []uint64 // values of the path's inputs in creation order (flattened terms)
}

var debugMu sync.Mutex
var debugTime = map[string]time.Duration{}
var debugCount = map[string]int{}
var debugUnsat = os.Getenv("VERIF_DEBUG_UNSAT") != ""
var debugReplay = os.Getenv("VERIF_DEBUG_REPLAY") != ""

type dom256 [4]uint64

func (d *dom256) has(v int) bool { return d[v>>6]&(1<<(uint(v)&63)) != 0 }
func (d *dom256) set(v int)      { d[v>>6] |= 1 << (uint(v) & 63) }
func (d *dom256) count() int {
	n := 0
	for _, w := range d {
		for ; w != 0; w &= w - 1 {
			n++
		}
	}
	return n
}

var debugCondN int

type trailEntry struct {
	c   *Cell
	old Value
}

type Stats struct {
	paths         int
	pathsByEnd    map[string]int
	branches      int // symbolic branch decisions taken (incl. replayed)
	newDecisions  int // decisions made for the first time (tree nodes)
	forks         int // decisions where both sides were feasible
	factPruned    int
	pcImplied     int
	modelHits     int
	oblig         int // obligation queries (Fail guards, bounds)
	obligUnsat    int
	steps         int64
	maxSteps      int
	summaryHits   int
	summaryMiss   int
	summaryFail   int
	intrinsics    map[string]int
	outsideIDNA   int
	inconclusive  int
	inconclusiveWhy []string
	replayedSteps int64
}

type Machine struct {
	prog   *ssa.Program
	sizes  types.Sizes
	st     *Store
	solver *Solver
	solverCF *Solver // context-free queries of the summariser (never sees a path frame)
	opts   Options

	infos      map[*ssa.Function]*fnInfo
	consts     map[*ssa.Const]Value
	globals    map[*ssa.Global]*Cell
	methCache  map[methKey]*ssa.Function
	fnSeen     map[*ssa.Function]bool
	interpPkgs map[string]bool
	varSlots   map[[2]int]*Term
	initDone   bool
	initSteps  int

	// per-path state
	epoch       int32
	watchEpoch  int32
	watching    bool
	pc          []*Term
	prefix      []int32
	dpos        int
	trace       []int32
	env         []uint64 // model, indexed by store var index
	inputs      []*Term  // symbolic inputs in creation order
	itemModel   []uint64
	dom         map[int32]*dom256
	domDirty    map[int32]bool
	domLit      map[int32]*Term
	wdom        map[int32]ivset
	pcSingle    int
	pcSet       map[*Term]bool
	idnaErr     map[string]*Term
	origin      map[*Term][]*Term
	originRev   map[*Term]*Term
	steps       int
	stepBudget  int
	depth       int
	recoverable *frame
	local       *localCtx
	trail       []trailEntry
	mapTrail    []mapSnap
	syn         syncModel
	siblings    []WorkItem
	nondet      []ndItem
	observes    []obsRec
	covers      []string
	knowns      []string
	failMsg     string
	mapRangeUsed int

	dbgExpect, dbgTrace []*Term
	dbgStack []string
	sharedCovered func(string) bool
	concreteInputs map[string]string

	sumCache  map[sumKey]*sumEntry
	sumCachePath map[sumKey]*sumEntry
	pureCache map[*ssa.Function]int
	intrCache map[*ssa.Function]intrEntry
	paramsSeen map[string]int
	extraInit  map[string]bool
	uniqInit   []uniqEntry
	uniqPath   []uniqEntry
	cfCache   map[string]Result
	sumCtx    *localCtx

	stats Stats
}

func NewMachine(prog *ssa.Program, solverKind string, opts Options) (*Machine, error) {
	m := &Machine{
		prog:       prog,
		sizes:      types.SizesFor("gc", "amd64"),
		st:         NewStore(),
		opts:       opts,
		infos:      map[*ssa.Function]*fnInfo{},
		consts:     map[*ssa.Const]Value{},
		globals:    map[*ssa.Global]*Cell{},
		methCache:  map[methKey]*ssa.Function{},
		fnSeen:     map[*ssa.Function]bool{},
		interpPkgs: map[string]bool{},
		varSlots:   map[[2]int]*Term{},
		sumCache:   map[sumKey]*sumEntry{},
		sumCachePath: map[sumKey]*sumEntry{},
		pureCache:  map[*ssa.Function]int{},
		intrCache:  map[*ssa.Function]intrEntry{},
		paramsSeen: map[string]int{},
		extraInit:  map[string]bool{},
		cfCache:    map[string]Result{},
	}
	m.stats.pathsByEnd = map[string]int{}
	m.stats.intrinsics = map[string]int{}
	timeout := 10000
	if opts.tier == "thorough" {
		timeout = 60000
	}
	s, err := NewSolver(solverKind, m.st, timeout)
	if err != nil {
		return nil, err
	}
	m.solver = s
	cf, err := NewSolver(solverKind, m.st, timeout)
	if err != nil {
		return nil, err
	}
	// summaries are an optimisation: their context-free infeasibility checks get a small,
	// deterministic resource limit (an "unknown" only makes the call run inline instead)
	cf.rlimit = 2000000
	if err := cf.Restart(); err != nil {
		return nil, err
	}
	m.solverCF = cf
	m.stepBudget = opts.stepBudget
	return m, nil
}

// resetPath prepares the machine for a new path (after undoing writes to init-time state).
func (m *Machine) resetPath(item WorkItem) {
	for i := len(m.trail) - 1; i >= 0; i-- {
		m.trail[i].c.v = m.trail[i].old
	}
	m.trail = m.trail[:0]
	m.syncReset()
	m.uniqPath = m.uniqPath[:0]
	m.epoch = 1
	m.watchEpoch = 0
	m.watching = false
	m.pc = m.pc[:0]
	if len(m.sumCachePath) > 0 {
		m.sumCachePath = map[sumKey]*sumEntry{}
	}
	m.solver.PathBegin()
	m.prefix = item.prefix
	m.dbgExpect = item.dbgConds
	m.dbgTrace = m.dbgTrace[:0]
	m.itemModel = item.model
	m.dpos = 0
	m.trace = m.trace[:0]
	for i := range m.env {
		m.env[i] = 0
	}
	m.inputs = m.inputs[:0]
	m.dom = map[int32]*dom256{}
	m.domDirty = map[int32]bool{}
	m.domLit = map[int32]*Term{}
	m.wdom = map[int32]ivset{}
	m.pcSingle = 0
	m.pcSet = map[*Term]bool{}
	m.idnaErr = map[string]*Term{}
	m.origin = map[*Term][]*Term{}
	m.originRev = map[*Term]*Term{}
	m.steps = 0
	m.depth = 0
	m.recoverable = nil
	m.local = nil
	m.siblings = nil
	m.nondet = nil
	m.observes = nil
	m.covers = nil
	m.knowns = nil
	m.failMsg = ""
}

func (m *Machine) noteRead(c *Cell) {
	if m.local != nil && c.epoch < m.local.startEpoch {
		m.local.reads = append(m.local.reads, readRec{c, c.v})
	}
	if m.watching && c.epoch < m.watchEpoch {
		m.lsRead(c)
	}
}

func (m *Machine) noteWrite(c *Cell) {
	if m.local != nil && c.epoch < m.local.startEpoch {
		panic(&pathEnd{endAbortLocal, "write to pre-existing object in summary"})
	}
	if m.watching && c.epoch < m.watchEpoch {
		if !m.lsWrite(c) {
			panic(&pathEnd{endWrite, "store to an object that existed before the observed operation"})
		}
		if c.epoch == 0 {
			// synchronised (lock held / inside Once.Do), so not a data race - but the object was created by
			// a package initialiser: "no package-level table is modified after initialisation"
			panic(&pathEnd{endWrite, "synchronised store to package-level state after initialisation"})
		}
	}
	if c.epoch == 0 && m.initDone {
		m.trail = append(m.trail, trailEntry{c, c.v})
	}
}

// ---------------------------------------------------------------- inputs

func (m *Machine) newInput(w uint8, deflt uint64) *Term {
	k := len(m.inputs)
	key := [2]int{k, int(w)}
	t, ok := m.varSlots[key]
	if !ok {
		t = m.st.NewVar(fmt.Sprintf("in%d_%d", k, w), w)
		m.varSlots[key] = t
	}
	for len(m.env) < len(m.st.vars) {
		m.env = append(m.env, 0)
	}
	if k < len(m.itemModel) {
		m.env[t.k] = m.itemModel[k]
	} else {
		m.env[t.k] = deflt
	}
	m.inputs = append(m.inputs, t)
	return t
}

func (m *Machine) modelInOrder(env []uint64) []uint64 {
	out := make([]uint64, len(m.inputs))
	for i, t := range m.inputs {
		if int(t.k) < len(env) {
			out[i] = env[t.k]
		}
	}
	return out
}

// ---------------------------------------------------------------- path condition & facts

func (m *Machine) lit(c *Term, val bool) *Term {
	if val {
		return c
	}
	return m.st.Not(c)
}

func (m *Machine) addPC(l *Term) {
	if l.op == OpConst {
		return
	}
	// split conjunctions so that facts can see single-variable conjuncts
	if l.op == OpAnd {
		m.addPC(l.a)
		m.addPC(l.b)
		return
	}
	if _, single := m.singleSmallVar(l); single {
		// fully captured by the variable's domain (see domainLits); kept only for reporting
		m.pcSingle++
		m.refine(l)
		return
	}
	m.refineWide(l)
	m.pc = append(m.pc, l)
	m.pcSet[l] = true
	m.solver.PathAssert(l)
}

// pcImplies: purely syntactic implication by the asserted literals: +1 if every
// conjunct of c is an asserted literal, -1 if the negation of c (or of one of its
// conjuncts) is an asserted literal, 0 otherwise.
func (m *Machine) pcImplies(c *Term, depth int) int {
	if m.pcSet[c] {
		return 1
	}
	if m.pcSet[m.st.Not(c)] {
		return -1
	}
	if depth > 64 {
		return 0
	}
	switch c.op {
	case OpAnd:
		a := m.pcImplies(c.a, depth+1)
		if a == -1 {
			return -1
		}
		b := m.pcImplies(c.b, depth+1)
		if b == -1 {
			return -1
		}
		if a == 1 && b == 1 {
			return 1
		}
	case OpNot:
		return -m.pcImplies(c.a, depth+1)
	case OpOr:
		a := m.pcImplies(c.a, depth+1)
		if a == 1 {
			return 1
		}
		b := m.pcImplies(c.b, depth+1)
		if b == 1 {
			return 1
		}
		if a == -1 && b == -1 {
			return -1
		}
	}
	return 0
}

func (m *Machine) singleSmallVar(c *Term) (int32, bool) {
	if c.many || c.v1 < 0 || c.v2 >= 0 {
		return -1, false
	}
	if m.st.vars[c.v1].w > 8 {
		return -1, false
	}
	return c.v1, true
}

func (m *Machine) domain(v int32) *dom256 {
	d, ok := m.dom[v]
	if !ok {
		d = &dom256{}
		w := m.st.vars[v].w
		n := 256
		if w == 0 {
			n = 2
		} else if w < 8 {
			n = 1 << w
		}
		for i := 0; i < n; i++ {
			d.set(i)
		}
		m.dom[v] = d
	}
	return d
}

func (m *Machine) refine(l *Term) {
	v, ok := m.singleSmallVar(l)
	if !ok {
		return
	}
	d := m.domain(v)
	m.domDirty[v] = true
	save := m.env[v]
	var nd dom256
	for i := 0; i < 256; i++ {
		if !d.has(i) {
			continue
		}
		m.env[v] = uint64(i)
		if m.st.Eval(l, m.env) != 0 {
			nd.set(i)
		}
	}
	m.env[v] = save
	*d = nd
}

// factsImply: +1 if the facts of the path (per-byte domains, intervals) show c true
// for every value, -1 if false for every value, 0 if undetermined. Domains and
// intervals over-approximate the projection of the path condition, so only
// "infeasible" conclusions are drawn from the result. Sound, not complete.
func (m *Machine) factsImply(c *Term) int {
	return m.factsImplyD(c, 0)
}

func (m *Machine) factsImplyD(c *Term, depth int) int {
	if c.op == OpConst {
		if c.k != 0 {
			return 1
		}
		return -1
	}
	if v, ok := m.singleSmallVar(c); ok {
		d := m.domain(v)
		save := m.env[v]
		sawT, sawF := false, false
		for i := 0; i < 256 && !(sawT && sawF); i++ {
			if !d.has(i) {
				continue
			}
			m.env[v] = uint64(i)
			if m.st.Eval(c, m.env) != 0 {
				sawT = true
			} else {
				sawF = true
			}
		}
		m.env[v] = save
		switch {
		case sawT && !sawF:
			return 1
		case sawF && !sawT:
			return -1
		}
		return 0
	}
	if depth > 40 {
		return 0
	}
	if m.local == nil && len(m.wdom) > 0 {
		if r := m.wideImply(c); r != 0 {
			return r
		}
	}
	if m.local == nil {
		if r := m.cutImply(c); r != 0 {
			return r
		}
	}
	switch c.op {
	case OpNot:
		return -m.factsImplyD(c.a, depth+1)
	case OpAnd:
		fa := m.factsImplyD(c.a, depth+1)
		if fa == -1 {
			return -1
		}
		fb := m.factsImplyD(c.b, depth+1)
		if fb == -1 {
			return -1
		}
		if fa == 1 && fb == 1 {
			return 1
		}
		return 0
	case OpOr:
		fa := m.factsImplyD(c.a, depth+1)
		if fa == 1 {
			return 1
		}
		fb := m.factsImplyD(c.b, depth+1)
		if fb == 1 {
			return 1
		}
		if fa == -1 && fb == -1 {
			return -1
		}
		return 0
	}
	return m.intervalImply(c)
}

func (m *Machine) inconclusive(why string) {
	m.stats.inconclusive++
	if len(m.stats.inconclusiveWhy) < 20 {
		m.stats.inconclusiveWhy = append(m.stats.inconclusiveWhy, why)
	}
}

// query asks the solver whether pc ∧ extra is satisfiable; returns the model (env) if sat.
func (m *Machine) query(extra *Term) (Result, []uint64) {
	// bring the domain constraints of the path frame up to date (domains only shrink,
	// so asserting the newer, stronger literal next to older ones is equivalent)
	for _, l := range m.domainLitsDirty() {
		m.solver.PathAssert(l)
	}
	res, vals := m.solver.PathCheck(extra, true, len(m.st.vars))
	if res == Unknown {
		m.inconclusive("solver: " + m.solver.lastErr)
	}
	return res, vals
}

func (m *Machine) branch(c *Term) bool { return m.branchAt(c, false, nil) }

// obligation: like branch, but the infeasibility of a side may only come from the solver.
func (m *Machine) obligation(c *Term) bool { return m.branchAt(c, true, nil) }

func (m *Machine) branchAt(c *Term, oblig bool, site ssa.Instruction) bool {
	if c.op == OpConst {
		return c.k != 0
	}
	if m.local != nil {
		return m.localBranch(c)
	}
	m.stats.branches++
	if debugReplay {
		m.dbgTrace = append(m.dbgTrace, c)
	}
	if m.dpos < len(m.prefix) {
		d := m.prefix[m.dpos]
		if debugReplay && m.dpos < len(m.dbgExpect) && m.dbgExpect[m.dpos] != nil && m.dbgExpect[m.dpos] != c {
			fmt.Fprintf(os.Stderr, "REPLAY DIVERGENCE at decision %d/%d:\n  expected %s\n  got      %s\n  site %v\n", m.dpos, len(m.prefix), m.dbgExpect[m.dpos], c, site)
			fmt.Fprintf(os.Stderr, "  prefix=%v\n  stack=%v\n", m.prefix, m.dbgStack)
			for i, e := range m.dbgExpect {
				if e == nil {
					fmt.Fprintf(os.Stderr, "  exp[%d]=pick\n", i)
				} else {
					fmt.Fprintf(os.Stderr, "  exp[%d]=%s\n", i, e)
				}
			}
			for i, e := range m.dbgTrace {
				if e == nil {
					fmt.Fprintf(os.Stderr, "  got[%d]=pick\n", i)
				} else {
					fmt.Fprintf(os.Stderr, "  got[%d]=%s\n", i, e)
				}
			}
			for _, nd := range m.nondet {
				fmt.Fprintf(os.Stderr, "  nondet %s %d\n", nd.K, nd.V)
			}
			panic("replay divergence")
		}
		m.dpos++
		m.trace = append(m.trace, d)
		m.addPC(m.lit(c, d == 1))
		return d == 1
	}
	m.stats.newDecisions++
	mv := m.st.Eval(c, m.env) != 0 // the side the cached model takes: feasible
	otherFeasible := 0             // 0 unknown, 1 yes, -1 no
	// a literal that is syntactically among the asserted ones needs no decision procedure
	switch m.pcImplies(c, 0) {
	case 1:
		if mv {
			otherFeasible = -1
			m.stats.pcImplied++
		}
	case -1:
		if !mv {
			otherFeasible = -1
			m.stats.pcImplied++
		}
	}
	if otherFeasible == 0 && m.opts.prefilter && !oblig {
		switch m.factsImply(c) {
		case 1:
			if !mv {
				m.debugContradiction(c)
				panic("facts contradict model (true)")
			}
			otherFeasible = -1
			m.stats.factPruned++
		case -1:
			if mv {
				panic("facts contradict model (false)")
			}
			otherFeasible = -1
			m.stats.factPruned++
		}
	}
	var otherModel []uint64
	if otherFeasible == 0 {
		if oblig {
			m.stats.oblig++
		}
		tq := time.Now()
		res, vals := m.query(m.lit(c, !mv))
		if debugUnsat {
			fn := "?"
			if site != nil {
				fn = site.Parent().Name()
			}
			key := fmt.Sprintf("%s oblig=%v res=%s", fn, oblig, res)
			debugMu.Lock()
			debugTime[key] += time.Since(tq)
			debugCount[key]++
			debugMu.Unlock()
		}
		switch res {
		case Sat:
			otherFeasible = 1
			otherModel = vals
		case Unsat:
			otherFeasible = -1
			if oblig {
				m.stats.obligUnsat++
			} else if debugUnsat {
				fn := ""
				if site != nil {
					fn = site.Parent().String() + " @ " + m.prog.Fset.Position(site.Pos()).String()
				}
				_ = fn
				if os.Getenv("VERIF_DEBUG_UNSATCOND") != "" {
					debugMu.Lock()
					if debugCondN < 60 {
						debugCondN++
						cs := c.String()
						if len(cs) > 300 {
							cs = cs[:300]
						}
						fmt.Fprintf(os.Stderr, "UNSATCOND mv=%v v1=%d v2=%d many=%v %s\n", mv, c.v1, c.v2, c.many, cs)
					}
					debugMu.Unlock()
				}
			}
		default:
			otherFeasible = -1
		}
	} else {
		m.stats.modelHits++
	}
	d := int32(0)
	if mv {
		d = 1
	}
	if otherFeasible == 1 {
		m.stats.forks++
		np := make([]int32, len(m.trace)+1)
		copy(np, m.trace)
		np[len(m.trace)] = 1 - d
		m.siblings = append(m.siblings, WorkItem{prefix: np, model: m.modelInOrder(otherModel), dbgConds: append([]*Term(nil), m.dbgTrace...)})
	}
	m.trace = append(m.trace, d)
	m.addPC(m.lit(c, mv))
	return mv
}

// forkN: a concrete n-way choice (vnd.Pick).
func (m *Machine) forkN(n int) int {
	if n <= 0 {
		panic(&pathEnd{endAssume, "Pick(0)"})
	}
	if n == 1 {
		return 0
	}
	if m.local != nil {
		panic(&pathEnd{endAbortLocal, "Pick inside summary"})
	}
	if debugReplay {
		m.dbgTrace = append(m.dbgTrace, nil)
	}
	if m.dpos < len(m.prefix) {
		d := m.prefix[m.dpos]
		m.dpos++
		m.trace = append(m.trace, d)
		return int(d)
	}
	cur := m.modelInOrder(m.env)
	for i := 1; i < n; i++ {
		np := make([]int32, len(m.trace)+1)
		copy(np, m.trace)
		np[len(m.trace)] = int32(i)
		m.siblings = append(m.siblings, WorkItem{prefix: np, model: cur, dbgConds: append([]*Term(nil), m.dbgTrace...)})
	}
	m.trace = append(m.trace, 0)
	return 0
}

// assume restricts the path to c; ends the path if c is infeasible.
func (m *Machine) assume(c *Term) {
	if c.op == OpConst {
		if c.k == 0 {
			panic(&pathEnd{endAssume, "assumption is false"})
		}
		return
	}
	if m.local != nil {
		panic(&pathEnd{endAbortLocal, "Assume inside summary"})
	}
	if m.dpos < len(m.prefix) {
		m.addPC(c)
		return
	}
	if m.st.Eval(c, m.env) != 0 {
		m.addPC(c)
		return
	}
	if m.opts.prefilter && m.factsImply(c) == -1 {
		panic(&pathEnd{endAssume, "assumption infeasible (facts)"})
	}
	res, vals := m.query(c)
	switch res {
	case Sat:
		copy(m.env, vals)
		m.addPC(c)
	case Unsat:
		panic(&pathEnd{endAssume, "assumption infeasible"})
	default:
		panic(&pathEnd{endAssume, "assumption undecided"})
	}
}

// ---------------------------------------------------------------- UTF-8

func (m *Machine) inRange(b *Term, lo, hi uint64) *Term {
	st := m.st
	if lo == hi {
		return st.Eq(b, st.Const(b.w, lo))
	}
	return st.And(st.Bin(OpULe, st.Const(b.w, lo), b), st.Bin(OpULe, b, st.Const(b.w, hi)))
}

var runeErrorBytes = []byte{0xEF, 0xBF, 0xBD}

// decodeRuneAt decodes one code point at b[i:], following Go's rules (an invalid or
// truncated sequence yields U+FFFD and consumes one byte). Forks on the shape.
func (m *Machine) decodeRuneAt(b []*Term, i int) (*Term, int) {
	st := m.st
	// all-concrete fast path
	n := len(b) - i
	if n > 4 {
		n = 4
	}
	conc := true
	var buf [4]byte
	for j := 0; j < n; j++ {
		if b[i+j].op != OpConst {
			conc = false
			break
		}
		buf[j] = byte(b[i+j].k)
	}
	if conc || b[i].op == OpConst {
		// first byte concrete decides how many bytes matter
		if b[i].op == OpConst {
			b0 := byte(b[i].k)
			if b0 < 0x80 {
				r := st.Const(32, uint64(b0))
				return r, 1
			}
		}
		if conc {
			r, size := utf8.DecodeRune(buf[:n])
			return st.Const(32, uint64(r)), size
		}
	}
	b0 := b[i]
	// bytes that are the recorded UTF-8 encoding of a rune term decode to that term
	if r, n, ok := m.getOriginRev(b, i); ok {
		return r, n
	}
	invalid := func() (*Term, int) { return st.Const(32, 0xFFFD), 1 }
	z := func(t *Term) *Term { return st.ZExt(t, 32) }
	and := func(t *Term, k uint64) *Term { return st.Bin(OpBAnd, z(t), st.Const(32, k)) }
	shl := func(t *Term, k uint64) *Term { return st.Bin(OpShl, t, st.Const(32, k)) }
	or := func(x, y *Term) *Term { return st.Bin(OpBOr, x, y) }
	if m.branch(st.Bin(OpULt, b0, st.Const(8, 0x80))) {
		r := z(b0)
		m.setOrigin(r, []*Term{b0})
		return r, 1
	}
	avail := len(b) - i
	cont := func(t *Term) *Term { return m.inRange(t, 0x80, 0xBF) }
	if m.branch(m.inRange(b0, 0xC2, 0xDF)) {
		if avail < 2 || !m.branch(cont(b[i+1])) {
			return invalid()
		}
		r := or(shl(and(b0, 0x1F), 6), and(b[i+1], 0x3F))
		m.setOrigin(r, []*Term{b0, b[i+1]})
		return r, 2
	}
	if m.branch(m.inRange(b0, 0xE0, 0xEF)) {
		if avail < 2 {
			return invalid()
		}
		// second byte range depends on b0
		lo := st.Ite(st.Eq(b0, st.Const(8, 0xE0)), st.Const(8, 0xA0), st.Const(8, 0x80))
		hi := st.Ite(st.Eq(b0, st.Const(8, 0xED)), st.Const(8, 0x9F), st.Const(8, 0xBF))
		ok1 := st.And(st.Bin(OpULe, lo, b[i+1]), st.Bin(OpULe, b[i+1], hi))
		if !m.branch(ok1) {
			return invalid()
		}
		if avail < 3 || !m.branch(cont(b[i+2])) {
			return invalid()
		}
		r := or(or(shl(and(b0, 0x0F), 12), shl(and(b[i+1], 0x3F), 6)), and(b[i+2], 0x3F))
		m.setOrigin(r, []*Term{b0, b[i+1], b[i+2]})
		return r, 3
	}
	if m.branch(m.inRange(b0, 0xF0, 0xF4)) {
		if avail < 2 {
			return invalid()
		}
		lo := st.Ite(st.Eq(b0, st.Const(8, 0xF0)), st.Const(8, 0x90), st.Const(8, 0x80))
		hi := st.Ite(st.Eq(b0, st.Const(8, 0xF4)), st.Const(8, 0x8F), st.Const(8, 0xBF))
		ok1 := st.And(st.Bin(OpULe, lo, b[i+1]), st.Bin(OpULe, b[i+1], hi))
		if !m.branch(ok1) {
			return invalid()
		}
		if avail < 3 || !m.branch(cont(b[i+2])) {
			return invalid()
		}
		if avail < 4 || !m.branch(cont(b[i+3])) {
			return invalid()
		}
		r := or(or(or(shl(and(b0, 0x07), 18), shl(and(b[i+1], 0x3F), 12)), shl(and(b[i+2], 0x3F), 6)), and(b[i+3], 0x3F))
		m.setOrigin(r, []*Term{b0, b[i+1], b[i+2], b[i+3]})
		return r, 4
	}
	return invalid()
}

func (m *Machine) decodeAll(b []*Term) []*Term {
	var out []*Term
	for i := 0; i < len(b); {
		r, size := m.decodeRuneAt(b, i)
		out = append(out, r)
		i += size
	}
	return out
}

// runeBytes returns the UTF-8 encoding of r (string(rune) semantics: invalid -> U+FFFD).
func (m *Machine) runeBytes(r *Term) []*Term {
	st := m.st
	if r.w != 32 {
		panic("runeBytes on non-32-bit term")
	}
	if r.op == OpConst {
		var buf [4]byte
		rv := rune(int32(r.k))
		n := utf8.EncodeRune(buf[:], rv)
		out := make([]*Term, n)
		for i := 0; i < n; i++ {
			out[i] = st.Const(8, uint64(buf[i]))
		}
		return out
	}
	if o, ok := m.getOrigin(r); ok {
		return o
	}
	c32 := func(k uint64) *Term { return st.Const(32, k) }
	lt := func(k uint64) *Term { return st.Bin(OpULt, r, c32(k)) }
	b8 := func(t *Term) *Term { return st.Trunc(t, 8) }
	shr := func(k uint64) *Term { return st.Bin(OpLShr, r, c32(k)) }
	cb := func(t *Term) *Term { // 0x80 | (t & 0x3F)
		return b8(st.Bin(OpBOr, c32(0x80), st.Bin(OpBAnd, t, c32(0x3F))))
	}
	if m.branch(lt(0x80)) {
		out := []*Term{b8(r)}
		m.setOrigin(r, out)
		return out
	}
	if m.branch(lt(0x800)) {
		out := []*Term{b8(st.Bin(OpBOr, c32(0xC0), shr(6))), cb(r)}
		m.setOrigin(r, out)
		return out
	}
	// invalid: surrogates or > 0x10FFFF (as unsigned this also covers negative runes)
	inv := st.Or(st.And(st.Bin(OpULe, c32(0xD800), r), st.Bin(OpULe, r, c32(0xDFFF))), st.Bin(OpULt, c32(0x10FFFF), r))
	if m.branch(inv) {
		return []*Term{st.Const(8, 0xEF), st.Const(8, 0xBF), st.Const(8, 0xBD)}
	}
	if m.branch(lt(0x10000)) {
		out := []*Term{b8(st.Bin(OpBOr, c32(0xE0), shr(12))), cb(shr(6)), cb(r)}
		m.setOrigin(r, out)
		return out
	}
	out := []*Term{b8(st.Bin(OpBOr, c32(0xF0), shr(18))), cb(shr(12)), cb(shr(6)), cb(r)}
	m.setOrigin(r, out)
	return out
}

func (m *Machine) debugContradiction(c *Term) {
	v, _ := m.singleSmallVar(c)
	d := m.domain(v)
	var vals []int
	for i := 0; i < 256; i++ {
		if d.has(i) {
			vals = append(vals, i)
		}
	}
	fmt.Fprintf(os.Stderr, "CONTRADICTION cond=%s var=v%d env=%d dom=%v prefixlen=%d dpos=%d inputs=%d itemModel=%v\n", c.String(), v, m.env[v], vals, len(m.prefix), m.dpos, len(m.inputs), m.itemModel)
	for _, l := range m.pc {
		fmt.Fprintf(os.Stderr, "  pc: %s  [eval=%d]\n", l.String(), m.st.Eval(l, m.env))
	}
	for i, in := range m.inputs {
		fmt.Fprintf(os.Stderr, "  input %d = v%d env=%d\n", i, in.k, m.env[in.k])
	}
}

// origin: rune term -> its exact UTF-8 bytes, valid under the current path condition.
// Inside a summary the facts hold only under the local guard, so they go to a
// per-local-path overlay that is discarded afterwards.
func (m *Machine) setOrigin(r *Term, b []*Term) {
	if m.local != nil {
		if m.local.origin == nil {
			m.local.origin = map[*Term][]*Term{}
			m.local.originRev = map[*Term]*Term{}
		}
		m.local.origin[r] = b
		if len(b) > 0 && b[0].op != OpConst {
			m.local.originRev[b[0]] = r
		}
		return
	}
	m.origin[r] = b
	if len(b) > 0 && b[0].op != OpConst {
		m.originRev[b[0]] = r
	}
}

// getOriginRev: if b[i:] starts with exactly the bytes recorded as the encoding of a rune term,
// return that term and the length (the record was made under a path condition that still holds).
func (m *Machine) getOriginRev(b []*Term, i int) (*Term, int, bool) {
	var r *Term
	var enc []*Term
	if m.local != nil {
		if m.local.originRev == nil {
			return nil, 0, false
		}
		r = m.local.originRev[b[i]]
		if r != nil {
			enc = m.local.origin[r]
		}
	} else {
		r = m.originRev[b[i]]
		if r != nil {
			enc = m.origin[r]
		}
	}
	if r == nil || len(enc) == 0 || i+len(enc) > len(b) {
		return nil, 0, false
	}
	for j, t := range enc {
		if b[i+j] != t {
			return nil, 0, false
		}
	}
	return r, len(enc), true
}

func (m *Machine) getOrigin(r *Term) ([]*Term, bool) {
	if m.local != nil {
		// summaries are context-free: only facts established under the local guard count,
		// so that a summary's result never depends on whether it was cached
		if m.local.origin != nil {
			if o, ok := m.local.origin[r]; ok {
				return o, true
			}
		}
		return nil, false
	}
	o, ok := m.origin[r]
	return o, ok
}

// domainLits: one literal per refined variable stating its current domain (a
// disjunction of ranges). Together they are equivalent to the conjunction of all
// single-variable literals of the path condition.
func (m *Machine) domainLits() []*Term {
	out := make([]*Term, 0, len(m.dom))
	// deterministic order
	ids := make([]int32, 0, len(m.dom))
	for v := range m.dom {
		ids = append(ids, v)
	}
	for i := 1; i < len(ids); i++ {
		for j := i; j > 0 && ids[j] < ids[j-1]; j-- {
			ids[j], ids[j-1] = ids[j-1], ids[j]
		}
	}
	for _, v := range ids {
		if m.domDirty[v] || m.domLit[v] == nil {
			m.domLit[v] = m.domainTerm(v)
			m.domDirty[v] = false
		}
		if l := m.domLit[v]; l.op != OpConst || l.k == 0 {
			out = append(out, l)
		}
	}
	return out
}

func (m *Machine) domainTerm(v int32) *Term {
	d := m.dom[v]
	vt := m.st.vars[v].term
	w := vt.w
	n := 256
	if w == 0 {
		n = 2
	} else if w < 8 {
		n = 1 << w
	}
	if w == 0 {
		switch {
		case d.has(0) && d.has(1):
			return m.st.True
		case d.has(1):
			return vt
		case d.has(0):
			return m.st.Not(vt)
		}
		return m.st.False
	}
	res := m.st.False
	full := true
	i := 0
	for i < n {
		if !d.has(i) {
			full = false
			i++
			continue
		}
		j := i
		for j+1 < n && d.has(j+1) {
			j++
		}
		res = m.st.Or(res, m.inRange(vt, uint64(i), uint64(j)))
		i = j + 1
	}
	if full {
		return m.st.True
	}
	return res
}

// domainLitsDirty returns the domain literal of every variable whose domain changed
// since it was last asserted into the path frame.
func (m *Machine) domainLitsDirty() []*Term {
	var out []*Term
	ids := make([]int32, 0, len(m.domDirty))
	for v, dirty := range m.domDirty {
		if dirty {
			ids = append(ids, v)
		}
	}
	for i := 1; i < len(ids); i++ {
		for j := i; j > 0 && ids[j] < ids[j-1]; j-- {
			ids[j], ids[j-1] = ids[j-1], ids[j]
		}
	}
	for _, v := range ids {
		l := m.domainTerm(v)
		m.domLit[v] = l
		m.domDirty[v] = false
		if l.op != OpConst || l.k == 0 {
			out = append(out, l)
		}
	}
	return out
}
