module gosymex

go 1.23

require (
	golang.org/x/net v0.34.0
	golang.org/x/text v0.21.0
	golang.org/x/tools v0.29.0
)

require (
	golang.org/x/net v0.34.0
	golang.org/x/mod v0.22.0 // indirect
	golang.org/x/sync v0.10.0 // indirect
)
