package main

import (
	"encoding/json"
	"flag"
	"fmt"
	"os"
	"runtime"
	"runtime/debug"
	"runtime/pprof"
	"sort"
	"strconv"
	"strings"
	"time"
)

func usage() {
	fmt.Fprintln(os.Stderr, `usage:
  gosymex run   -h pkg.Func[,pkg.Func...] [-tier quick|thorough] [-workers N] [-solver z3|z3-new|cvc5] [-v]
  gosymex check -prop C07 [-tier quick|thorough]
  gosymex replay <file>`)
	os.Exit(2)
}

func main() {
	debug.SetGCPercent(400)
	if len(os.Args) < 2 {
		usage()
	}
	switch os.Args[1] {
	case "run":
		os.Exit(cmdRun(os.Args[2:]))
	case "check":
		os.Exit(cmdCheck(os.Args[2:]))
	case "replay":
		os.Exit(cmdReplay(os.Args[2:]))
	case "selftest":
		os.Exit(cmdSelftest(os.Args[2:]))
	default:
		usage()
	}
}

func envInt(name string, def int) int {
	if v := os.Getenv(name); v != "" {
		if n, err := strconv.Atoi(v); err == nil {
			return n
		}
	}
	return def
}

type runConfig struct {
	tier     string
	workers  int
	solver   string
	verbose  bool
	maxPaths int
	sampleN  int
	seed     int64
	nosum    bool
	noprefilter bool
	params   string
}

func (rc *runConfig) flags(fs *flag.FlagSet) {
	fs.StringVar(&rc.tier, "tier", "quick", "quick|thorough")
	fs.IntVar(&rc.workers, "workers", envInt("VERIF_WORKERS", runtime.NumCPU()), "worker count")
	fs.StringVar(&rc.solver, "solver", os.Getenv("VERIF_SOLVER"), "z3|z3-new|cvc5")
	fs.BoolVar(&rc.verbose, "v", false, "verbose")
	fs.IntVar(&rc.maxPaths, "maxpaths", 0, "stop after N paths (0 = no limit); a truncated run is inconclusive")
	fs.IntVar(&rc.sampleN, "samples", 24, "terminal paths sampled for native cross-validation")
	fs.BoolVar(&rc.nosum, "nosum", false, "disable callee summaries")
	fs.BoolVar(&rc.noprefilter, "noprefilter", false, "disable the domain prefilter")
	fs.StringVar(&rc.params, "params", "", "override vnd.Param values: name=v,name=v")
}

func (rc *runConfig) finish() {
	if rc.solver == "" {
		rc.solver = "z3"
	}
	if t := os.Getenv("VERIF_TIER"); t != "" && rc.tier == "" {
		rc.tier = t
	}
	rc.seed = int64(envInt("VERIF_SEED", 1))
	if rc.params != "" {
		for _, kv := range strings.Split(rc.params, ",") {
			p := strings.SplitN(kv, "=", 2)
			if len(p) == 2 {
				if n, err := strconv.Atoi(p[1]); err == nil {
					paramOverride[p[0]] = n
				}
			}
		}
	}
}

func (rc *runConfig) options() Options {
	budget := 3_000_000
	if rc.tier == "thorough" {
		budget = 10_000_000
	}
	return Options{summaries: !rc.nosum, prefilter: !rc.noprefilter, stepBudget: budget, tier: rc.tier}
}

func setup(rc *runConfig) (*Loaded, *Explorer, []*Machine, error) {
	t0 := time.Now()
	l, err := Load()
	if err != nil {
		return nil, nil, nil, err
	}
	if rc.verbose {
		fmt.Fprintf(os.Stderr, "loaded + SSA built in %.1fs\n", time.Since(t0).Seconds())
	}
	e := &Explorer{l: l, opts: rc.options(), solver: rc.solver, workers: rc.workers, maxPaths: rc.maxPaths, seed: rc.seed, sampleN: rc.sampleN, verbose: rc.verbose}
	ms := make([]*Machine, rc.workers)
	errs := make([]error, rc.workers)
	done := make(chan int, rc.workers)
	for i := range ms {
		go func(i int) {
			ms[i], errs[i] = e.newMachine()
			done <- i
		}(i)
	}
	for range ms {
		<-done
	}
	for _, err := range errs {
		if err != nil {
			return nil, nil, nil, err
		}
	}
	if rc.verbose {
		fmt.Fprintf(os.Stderr, "machines ready (%d workers, init %d steps) at %.1fs\n", rc.workers, ms[0].initSteps, time.Since(t0).Seconds())
	}
	return l, e, ms, nil
}

func closeMachines(ms []*Machine) {
	for _, m := range ms {
		if m != nil && m.solver != nil {
			m.solver.Close()
		}
		if m != nil && m.solverCF != nil {
			m.solverCF.Close()
		}
	}
}

func cmdRun(args []string) int {
	fs := flag.NewFlagSet("run", flag.ExitOnError)
	var rc runConfig
	rc.flags(fs)
	hs := fs.String("h", "", "harnesses, comma separated (pkg.Func)")
	cpuprof := fs.String("cpuprofile", "", "write a CPU profile")
	show := fs.Int("show", 5, "failures to print")
	dump := fs.Int("dump", 0, "print the replay records (JSON) of the first N failures")
	fs.Parse(args)
	rc.finish()
	if *hs == "" {
		usage()
	}
	_, e, ms, err := setup(&rc)
	if err != nil {
		fmt.Fprintln(os.Stderr, "setup:", err)
		return 2
	}
	defer closeMachines(ms)
	if *cpuprof != "" {
		f, _ := os.Create(*cpuprof)
		pprof.StartCPUProfile(f)
		defer pprof.StopCPUProfile()
	}
	code := 0
	for _, h := range strings.Split(*hs, ",") {
		rep, err := e.Run(ms, h)
		if err != nil {
			fmt.Fprintln(os.Stderr, err)
			return 2
		}
		printReport(rep, ms, *show)
		for i, f := range rep.Fails {
			if i >= *dump {
				break
			}
			js, _ := json.Marshal(recordFromPath("", rc.tier, f))
			fmt.Printf("RECORD %s\n", js)
		}
		if rep.FailCount > 0 {
			code = 1
		}
	}
	return code
}

func printReport(rep *HarnessReport, ms []*Machine, show int) {
	fmt.Printf("harness %s: paths=%d wall=%.2fs maxSteps=%d maxDepth=%d truncated=%v\n", rep.Name, rep.Paths, rep.WallS, rep.MaxSteps, rep.MaxDepth, rep.Truncated)
	for _, k := range sortedKeys(rep.ByEnd) {
		fmt.Printf("  end[%s]=%d\n", k, rep.ByEnd[k])
	}
	var cov []string
	for c := range rep.Covers {
		cov = append(cov, c)
	}
	sort.Strings(cov)
	fmt.Printf("  covers: %v\n", cov)
	if len(rep.KnownHits) > 0 {
		fmt.Printf("  known-hits: %v\n", rep.KnownHits)
	}
	for _, u := range rep.Unsupp {
		fmt.Printf("  UNSUPPORTED: %s\n", u)
	}
	for i, f := range rep.Fails {
		if i >= show {
			break
		}
		fmt.Printf("  FAIL[%s] %s  knowns=%v  inputs=%s observes=%v\n", f.End, f.Msg, f.Knowns, fmtNondet(f.Nondet), fmtObs(f.Observes))
	}
	st := aggregate(ms)
	fmt.Printf("  solver: queries=%d sat=%d unsat=%d unknown=%d errors=%d time=%.2fs | branches=%d new=%d forks=%d factPruned=%d modelHits=%d oblig=%d/%d | summaries hit=%d miss=%d fail=%d | inconclusive=%d\n",
		st.queries, st.sat, st.unsat, st.unknown, st.errors, float64(st.timeNs)/1e9,
		st.branches, st.newDecisions, st.forks, st.factPruned, st.modelHits, st.obligUnsat, st.oblig,
		st.summaryHits, st.summaryMiss, st.summaryFail, st.inconclusive)
	for _, w := range st.why {
		fmt.Printf("  INCONCLUSIVE: %s\n", w)
	}
	if debugUnsat {
		type kv struct {
			k string
			d time.Duration
		}
		var l []kv
		for k, d := range debugTime {
			l = append(l, kv{k, d})
		}
		sort.Slice(l, func(i, j int) bool { return l[i].d > l[j].d })
		type kc struct {
			k string
			c int
		}
		var sf []kc
		for k, c := range debugCount {
			if strings.HasPrefix(k, "SUMFAIL ") {
				sf = append(sf, kc{k, c})
			}
		}
		sort.Slice(sf, func(i, j int) bool { return sf[i].c > sf[j].c })
		for i, e := range sf {
			if i > 12 {
				break
			}
			fmt.Printf("  %s n=%d\n", e.k, e.c)
		}
		for i, e := range l {
			if i > 25 {
				break
			}
			fmt.Printf("  QTIME %-60s n=%-7d total=%.1fs avg=%.1fms\n", e.k, debugCount[e.k], e.d.Seconds(), float64(e.d.Milliseconds())/float64(debugCount[e.k]))
		}
	}
}

type aggStats struct {
	queries, sat, unsat, unknown, errors int
	timeNs                               int64
	branches, newDecisions, forks        int
	factPruned, modelHits                int
	oblig, obligUnsat                    int
	summaryHits, summaryMiss, summaryFail int
	inconclusive                         int
	outsideIDNA                          int
	steps                                int64
	why                                  []string
	intrinsics                           map[string]int
	mapRange                             int
}

func aggregate(ms []*Machine) aggStats {
	var a aggStats
	a.intrinsics = map[string]int{}
	for _, m := range ms {
		for _, sv := range []*Solver{m.solver, m.solverCF} {
			a.queries += sv.queries
			a.sat += sv.sat
			a.unsat += sv.unsat
			a.unknown += sv.unknown
			a.errors += sv.errors
			a.timeNs += sv.timeNs
		}
		a.branches += m.stats.branches
		a.newDecisions += m.stats.newDecisions
		a.forks += m.stats.forks
		a.factPruned += m.stats.factPruned
		a.modelHits += m.stats.modelHits
		a.oblig += m.stats.oblig
		a.obligUnsat += m.stats.obligUnsat
		a.summaryHits += m.stats.summaryHits
		a.summaryMiss += m.stats.summaryMiss
		a.summaryFail += m.stats.summaryFail
		a.inconclusive += m.stats.inconclusive
		a.outsideIDNA += m.stats.outsideIDNA
		a.steps += m.stats.steps
		a.mapRange += m.mapRangeUsed
		a.why = append(a.why, m.stats.inconclusiveWhy...)
		for k, v := range m.stats.intrinsics {
			a.intrinsics[k] += v
		}
	}
	if len(a.why) > 10 {
		a.why = a.why[:10]
	}
	return a
}

func fmtNondet(nd []ndItem) string {
	var sb strings.Builder
	for _, it := range nd {
		switch it.K {
		case "str":
			b := make([]byte, len(it.S))
			for i, v := range it.S {
				b[i] = byte(v)
			}
			fmt.Fprintf(&sb, "str:%q ", string(b))
		default:
			fmt.Fprintf(&sb, "%s:%d ", it.K, it.V)
		}
	}
	return sb.String()
}

func fmtObs(obs []string) []string {
	out := make([]string, len(obs))
	for i, o := range obs {
		p := strings.SplitN(o, "=", 2)
		if len(p) == 2 {
			b := make([]byte, len(p[1])/2)
			for j := range b {
				v, _ := strconv.ParseUint(p[1][2*j:2*j+2], 16, 8)
				b[j] = byte(v)
			}
			out[i] = fmt.Sprintf("%s=%q", p[0], string(b))
		} else {
			out[i] = o
		}
	}
	return out
}

