package main

import (
	"fmt"
	"go/types"

	"golang.org/x/tools/go/ssa"
)

// Value is one of:
//   *Term      scalar (bool or integer)
//   FloatV     concrete float
//   StrV       string: concrete length, symbolic bytes
//   PtrV       pointer to a cell (or symbolic-index element pointer)
//   SliceV     slice
//   StructV    struct value (registers only; memory uses cells)
//   ArrayV     array value (registers only)
//   IfaceV     interface value
//   FuncV      function value / closure
//   MapV       map reference
//   TupleV     multi-value
//   OpaqueV    value of a stubbed library type
//   *IterV     range iterator
type Value interface{}

type FloatV struct{ f float64 }

type StrV struct{ b []*Term }

type PtrV struct {
	c *Cell
	// symbolic element pointer: one of alts, selected by sel (sel == index)
	alts []*Cell
	sel  *Term
}

type SliceV struct {
	arr *ArrObj
	off int
	len int
	cap int
}

type ArrObj struct {
	cells []*Cell
	elem  types.Type
}

type StructV struct{ f []Value }
type ArrayV struct{ e []Value }

type IfaceV struct {
	t types.Type // dynamic type; nil = nil interface
	v Value
}

type FuncV struct {
	fn     *ssa.Function
	env    []Value
	bi     *ssa.Builtin
	native func(m *Machine, args []Value) Value // engine-provided function value (e.g. the swapper of sort.Slice)
}

type MapV struct{ m *MapObj }

type MapObj struct {
	keys    []Value
	vals    []Value
	epoch   int32
	snapGen int32 // path generation in which the pre-path content was saved (epoch-0 maps)
}

type TupleV []Value

type OpaqueV struct {
	kind string
	data interface{}
}

type IterV struct {
	str  []*Term // string iteration
	pos  int
	mobj *MapObj
}

const (
	cellScalar = iota
	cellStruct
	cellArray
)

// Cell is a unit of addressable memory.
type Cell struct {
	v       Value
	kids    []*Cell
	kind    uint8
	lsFlags uint8 // lockset monitor (syncmodel.go), valid when lsGen is the current path generation
	epoch   int32
	lsGen   int32
}

// ---------------------------------------------------------------- type helpers

func under(t types.Type) types.Type { return t.Underlying() }

func intWidth(t types.Type) (w uint8, signed bool, ok bool) {
	b, isB := under(t).(*types.Basic)
	if !isB {
		return 0, false, false
	}
	switch b.Kind() {
	case types.Bool, types.UntypedBool:
		return 0, false, true
	case types.Int8:
		return 8, true, true
	case types.Uint8:
		return 8, false, true
	case types.Int16:
		return 16, true, true
	case types.Uint16:
		return 16, false, true
	case types.Int32, types.UntypedRune:
		return 32, true, true
	case types.Uint32:
		return 32, false, true
	case types.Int, types.Int64, types.UntypedInt:
		return 64, true, true
	case types.Uint, types.Uint64, types.Uintptr:
		return 64, false, true
	}
	return 0, false, false
}

func isString(t types.Type) bool {
	b, ok := under(t).(*types.Basic)
	return ok && (b.Kind() == types.String || b.Kind() == types.UntypedString)
}

func isFloat(t types.Type) bool {
	b, ok := under(t).(*types.Basic)
	return ok && (b.Kind() == types.Float64 || b.Kind() == types.Float32 || b.Kind() == types.UntypedFloat)
}

func (m *Machine) zero(t types.Type) Value {
	switch u := under(t).(type) {
	case *types.Basic:
		if isString(t) {
			return StrV{}
		}
		if isFloat(t) {
			return FloatV{0}
		}
		if u.Kind() == types.UnsafePointer {
			return PtrV{}
		}
		if u.Kind() == types.UntypedNil {
			return PtrV{}
		}
		w, _, ok := intWidth(t)
		if !ok {
			m.unsupported("zero of basic type " + t.String())
		}
		return m.st.Const(w, 0)
	case *types.Pointer:
		return PtrV{}
	case *types.Slice:
		return SliceV{}
	case *types.Map:
		return MapV{}
	case *types.Interface:
		return IfaceV{}
	case *types.Signature:
		return FuncV{}
	case *types.Struct:
		f := make([]Value, u.NumFields())
		for i := range f {
			f[i] = m.zero(u.Field(i).Type())
		}
		return StructV{f}
	case *types.Array:
		e := make([]Value, u.Len())
		for i := range e {
			e[i] = m.zero(u.Elem())
		}
		return ArrayV{e}
	case *types.Chan:
		return OpaqueV{kind: "chan"}
	case *types.Tuple:
		tv := make(TupleV, u.Len())
		for i := range tv {
			tv[i] = m.zero(u.At(i).Type())
		}
		return tv
	}
	m.unsupported("zero of type " + t.String())
	return nil
}

func (m *Machine) newCell(t types.Type) *Cell {
	c := &Cell{epoch: m.epoch}
	switch u := under(t).(type) {
	case *types.Struct:
		c.kind = cellStruct
		c.kids = make([]*Cell, u.NumFields())
		for i := range c.kids {
			c.kids[i] = m.newCell(u.Field(i).Type())
		}
	case *types.Array:
		c.kind = cellArray
		c.kids = make([]*Cell, u.Len())
		for i := range c.kids {
			c.kids[i] = m.newCell(u.Elem())
		}
	default:
		c.v = m.zero(t)
	}
	return c
}

func (m *Machine) newArr(elem types.Type, n int) *ArrObj {
	a := &ArrObj{elem: elem, cells: make([]*Cell, n)}
	for i := range a.cells {
		a.cells[i] = m.newCell(elem)
	}
	return a
}

func (m *Machine) loadCell(c *Cell) Value {
	m.noteRead(c)
	switch c.kind {
	case cellStruct:
		f := make([]Value, len(c.kids))
		for i, k := range c.kids {
			f[i] = m.loadCell(k)
		}
		return StructV{f}
	case cellArray:
		e := make([]Value, len(c.kids))
		for i, k := range c.kids {
			e[i] = m.loadCell(k)
		}
		return ArrayV{e}
	}
	return c.v
}

func (m *Machine) storeCell(c *Cell, v Value) {
	switch c.kind {
	case cellStruct:
		sv, ok := v.(StructV)
		if !ok {
			panic(fmt.Sprintf("store non-struct %T into struct cell", v))
		}
		for i, k := range c.kids {
			m.storeCell(k, sv.f[i])
		}
		return
	case cellArray:
		av, ok := v.(ArrayV)
		if !ok {
			panic(fmt.Sprintf("store non-array %T into array cell", v))
		}
		for i, k := range c.kids {
			m.storeCell(k, av.e[i])
		}
		return
	}
	m.noteWrite(c)
	c.v = v
}

func (m *Machine) load(p PtrV) Value {
	if p.alts != nil {
		// symbolic element: ite chain over scalar candidates
		var res *Term
		for i := len(p.alts) - 1; i >= 0; i-- {
			v, ok := m.loadCell(p.alts[i]).(*Term)
			if !ok {
				m.unsupported("symbolic-index load of non-scalar element")
			}
			if res == nil {
				res = v
			} else {
				res = m.st.Ite(m.st.Eq(p.sel, m.st.Const(p.sel.w, uint64(i))), v, res)
			}
		}
		return res
	}
	if p.c == nil {
		m.goPanic("nil pointer dereference")
	}
	return m.loadCell(p.c)
}

func (m *Machine) store(p PtrV, v Value) {
	if p.alts != nil {
		nv, ok := v.(*Term)
		if !ok {
			m.unsupported("symbolic-index store of non-scalar element")
		}
		for i, c := range p.alts {
			old, ok := c.v.(*Term)
			if !ok {
				m.unsupported("symbolic-index store into non-scalar element")
			}
			m.noteWrite(c)
			c.v = m.st.Ite(m.st.Eq(p.sel, m.st.Const(p.sel.w, uint64(i))), nv, old)
		}
		return
	}
	if p.c == nil {
		m.goPanic("nil pointer dereference (store)")
	}
	m.storeCell(p.c, v)
}

// ---------------------------------------------------------------- strings

func (m *Machine) strConst(s string) StrV {
	b := make([]*Term, len(s))
	for i := 0; i < len(s); i++ {
		b[i] = m.st.Const(8, uint64(s[i]))
	}
	return StrV{b}
}

// concrete returns the Go string if all bytes are constant.
func (s StrV) concrete() (string, bool) {
	buf := make([]byte, len(s.b))
	for i, t := range s.b {
		if t.op != OpConst {
			return "", false
		}
		buf[i] = byte(t.k)
	}
	return string(buf), true
}

func (m *Machine) strEq(a, b StrV) *Term {
	if len(a.b) != len(b.b) {
		return m.st.False
	}
	r := m.st.True
	for i := range a.b {
		r = m.st.And(r, m.st.Eq(a.b[i], b.b[i]))
		if r == m.st.False {
			return r
		}
	}
	return r
}

// strLess: lexicographic a < b.
func (m *Machine) strLess(a, b StrV) *Term {
	n := len(a.b)
	if len(b.b) < n {
		n = len(b.b)
	}
	res := m.st.Bool(len(a.b) < len(b.b))
	for i := n - 1; i >= 0; i-- {
		res = m.st.Ite(m.st.Eq(a.b[i], b.b[i]), res, m.st.Bin(OpULt, a.b[i], b.b[i]))
	}
	return res
}

// ---------------------------------------------------------------- equality

func (m *Machine) valuesEqual(a, b Value) *Term {
	switch x := a.(type) {
	case *Term:
		y, ok := b.(*Term)
		if !ok {
			m.unsupported(fmt.Sprintf("compare %T with %T", a, b))
		}
		return m.st.Eq(x, y)
	case StrV:
		return m.strEq(x, b.(StrV))
	case FloatV:
		return m.st.Bool(x.f == b.(FloatV).f)
	case PtrV:
		y, ok := b.(PtrV)
		if !ok {
			m.unsupported(fmt.Sprintf("compare pointer with %T", b))
		}
		if x.alts != nil || y.alts != nil {
			m.unsupported("compare symbolic element pointers")
		}
		return m.st.Bool(x.c == y.c)
	case IfaceV:
		y, ok := b.(IfaceV)
		if !ok {
			m.unsupported(fmt.Sprintf("compare interface with %T", b))
		}
		if x.t == nil || y.t == nil {
			return m.st.Bool(x.t == nil && y.t == nil)
		}
		if !types.Identical(x.t, y.t) {
			return m.st.False
		}
		return m.valuesEqual(x.v, y.v)
	case StructV:
		y := b.(StructV)
		r := m.st.True
		for i := range x.f {
			r = m.st.And(r, m.valuesEqual(x.f[i], y.f[i]))
		}
		return r
	case ArrayV:
		y := b.(ArrayV)
		r := m.st.True
		for i := range x.e {
			r = m.st.And(r, m.valuesEqual(x.e[i], y.e[i]))
		}
		return r
	case SliceV:
		y := b.(SliceV)
		// only comparison with nil is legal
		if y.arr == nil && y.len == 0 {
			return m.st.Bool(x.arr == nil)
		}
		if x.arr == nil && x.len == 0 {
			return m.st.Bool(y.arr == nil)
		}
	case MapV:
		y := b.(MapV)
		if y.m == nil {
			return m.st.Bool(x.m == nil)
		}
		if x.m == nil {
			return m.st.Bool(y.m == nil)
		}
	case FuncV:
		y := b.(FuncV)
		if y.fn == nil && y.bi == nil && y.native == nil {
			return m.st.Bool(x.fn == nil && x.bi == nil && x.native == nil)
		}
		if x.fn == nil && x.bi == nil && x.native == nil {
			return m.st.Bool(y.fn == nil && y.bi == nil && y.native == nil)
		}
	case OpaqueV:
		y, ok := b.(OpaqueV)
		if ok {
			return m.st.Bool(x.kind == y.kind && x.data == y.data)
		}
		if p, ok := b.(PtrV); ok && p.c == nil {
			return m.st.False
		}
	}
	m.unsupported(fmt.Sprintf("equality of %T and %T", a, b))
	return nil
}
