package main

import (
	"fmt"
	"os"
	"path/filepath"
	"strings"

	"golang.org/x/tools/go/packages"
	"golang.org/x/tools/go/ssa"
	"golang.org/x/tools/go/ssa/ssautil"
)

const modPath = "github.com/nlnwa/whatwg-url"

type Loaded struct {
	prog    *ssa.Program
	pkgs    map[string]*ssa.Package // by import path
	repo    string
	overlay map[string]string // virtual path -> real path
}

func verifDir() string {
	if d := os.Getenv("VERIF_DIR"); d != "" {
		return d
	}
	return "/verif"
}

func repoDir() string {
	if d := os.Getenv("VERIF_REPO"); d != "" {
		return d
	}
	return "/repo"
}

// overlayMap maps harness sources under /verif/harness into the module under test.
func overlayMap(repo string, withTests bool) (map[string]string, error) {
	h := filepath.Join(verifDir(), "harness")
	dirs := map[string]string{
		"vnd":           "internal/vnd",
		"whatwgmodel":   "internal/whatwgmodel",
		"url":           "url",
		"canonicalizer": "canonicalizer",
	}
	ov := map[string]string{}
	for src, dst := range dirs {
		ents, err := os.ReadDir(filepath.Join(h, src))
		if err != nil {
			if os.IsNotExist(err) {
				continue
			}
			return nil, err
		}
		for _, e := range ents {
			n := e.Name()
			if e.IsDir() || !strings.HasSuffix(n, ".go") {
				continue
			}
			if strings.HasSuffix(n, "_test.go") {
				if !withTests || !strings.HasPrefix(n, "zz_verif") {
					continue
				}
			}
			ov[filepath.Join(repo, dst, n)] = filepath.Join(h, src, n)
		}
	}
	return ov, nil
}

func goEnv() []string {
	env := os.Environ()
	env = append(env, "GOFLAGS=-mod=mod", "GOPROXY=off", "GOSUMDB=off", "GOTOOLCHAIN=local")
	return env
}

func Load() (*Loaded, error) {
	repo := repoDir()
	ovFiles, err := overlayMap(repo, false)
	if err != nil {
		return nil, err
	}
	overlay := map[string][]byte{}
	for v, r := range ovFiles {
		b, err := os.ReadFile(r)
		if err != nil {
			return nil, err
		}
		overlay[v] = b
	}
	cfg := &packages.Config{
		Mode:       packages.LoadAllSyntax,
		Dir:        repo,
		Env:        goEnv(),
		BuildFlags: []string{"-tags=verif"},
		Overlay:    overlay,
	}
	patterns := []string{"./url", "./canonicalizer", "./errors", "./internal/vnd"}
	if _, err := os.Stat(filepath.Join(verifDir(), "harness", "whatwgmodel")); err == nil {
		ents, _ := os.ReadDir(filepath.Join(verifDir(), "harness", "whatwgmodel"))
		for _, e := range ents {
			if strings.HasSuffix(e.Name(), ".go") && !strings.HasSuffix(e.Name(), "_test.go") {
				patterns = append(patterns, "./internal/whatwgmodel")
				break
			}
		}
	}
	pkgs, err := packages.Load(cfg, patterns...)
	if err != nil {
		return nil, err
	}
	nerr := 0
	packages.Visit(pkgs, nil, func(p *packages.Package) {
		for _, e := range p.Errors {
			if strings.HasPrefix(p.PkgPath, modPath) || nerr < 5 {
				fmt.Fprintf(os.Stderr, "load error in %s: %v\n", p.PkgPath, e)
			}
			nerr++
		}
	})
	if nerr > 0 {
		return nil, fmt.Errorf("%d package load errors", nerr)
	}
	prog, spkgs := ssautil.AllPackages(pkgs, ssa.InstantiateGenerics)
	prog.Build()
	l := &Loaded{prog: prog, pkgs: map[string]*ssa.Package{}, repo: repo, overlay: ovFiles}
	for _, p := range spkgs {
		if p != nil {
			l.pkgs[p.Pkg.Path()] = p
		}
	}
	for _, p := range prog.AllPackages() {
		l.pkgs[p.Pkg.Path()] = p
	}
	return l, nil
}

// interpPkg: packages whose initialisers are interpreted and whose globals are real.
func (m *Machine) interpPkg(path string) bool {
	if v, ok := m.interpPkgs[path]; ok {
		return v
	}
	v := strings.HasPrefix(path, modPath) ||
		path == "github.com/bits-and-blooms/bitset" ||
		path == "strconv" ||
		path == "unicode/utf8" ||
		path == "math/bits" ||
		path == "net/netip"
	m.interpPkgs[path] = v
	return v
}

func (m *Machine) allowFn(fn *ssa.Function) bool { return true }

// runInits interprets the package initialisers (concretely) once per machine.
func (m *Machine) runInits(l *Loaded) (err error) {
	defer func() {
		if r := recover(); r != nil {
			switch e := r.(type) {
			case *pathEnd:
				err = fmt.Errorf("init: %s: %s", e.kind, e.msg)
			case *goPanicV:
				err = fmt.Errorf("init: go panic: %s", e.msg)
			default:
				panic(r)
			}
		}
	}()
	m.epoch = 0
	m.syncReset()
	m.stepBudget = 50_000_000
	m.steps = 0
	m.env = m.env[:0]
	m.dom = map[int32]*dom256{}
	m.origin = map[*Term][]*Term{}
	m.originRev = map[*Term]*Term{}
	// only the packages every harness needs; canonicalizer's initialiser runs when the first
	// canonicalizer harness is explored (ensureInit), so that url-package harnesses see exactly the
	// initial state their native replay binary (which cannot import canonicalizer) sees
	for _, path := range []string{modPath + "/url", modPath + "/internal/whatwgmodel"} {
		p := l.pkgs[path]
		if p == nil {
			continue
		}
		initFn := p.Func("init")
		if initFn != nil {
			m.callFunction(initFn, nil, nil, nil)
		}
	}
	m.initSteps = m.steps
	m.initDone = true
	m.syncInitDone()
	m.stepBudget = m.opts.stepBudget
	return nil
}

// ensureInit runs the initialiser of an additional package (once per machine), as part of the
// pre-existing (epoch 0) state.
func (m *Machine) ensureInit(l *Loaded, path string) (err error) {
	if m.extraInit[path] {
		return nil
	}
	m.extraInit[path] = true
	p := l.pkgs[path]
	if p == nil {
		return nil
	}
	defer func() {
		if r := recover(); r != nil {
			switch e := r.(type) {
			case *pathEnd:
				err = fmt.Errorf("init %s: %s: %s", path, e.kind, e.msg)
			case *goPanicV:
				err = fmt.Errorf("init %s: go panic: %s", path, e.msg)
			default:
				panic(r)
			}
		}
	}()
	// undo whatever the last path left in init-time state first
	m.resetPath(WorkItem{})
	m.solver.PathEnd()
	m.initDone = false
	m.epoch = 0
	saveBudget := m.stepBudget
	m.stepBudget = 50_000_000
	m.steps = 0
	if initFn := p.Func("init"); initFn != nil {
		m.callFunction(initFn, nil, nil, nil)
	}
	m.initDone = true
	m.syncInitDone()
	m.stepBudget = saveBudget
	return nil
}
