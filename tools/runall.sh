#!/bin/sh
# usage: tools/runall.sh [quick|thorough] [ids...]   runs the checks one after another, logs under /verif/logs
TIER="${1:-quick}"; shift
IDS="$@"; [ -z "$IDS" ] && IDS="C01 C02 C03 C04 C05 C06 C07 C08 C09 C10 C11 C12 C13 C14 C15 C16 C17 C18 C19"
mkdir -p /verif/logs
for id in $IDS; do
  s=$(date +%s)
  timeout ${MAXT:-3600} /verif/check $id $TIER > /verif/logs/$id.$TIER.log 2>&1
  e=$?
  echo "$id tier=$TIER exit=$e wall=$(( $(date +%s) - s ))s $(grep -c KNOWN-FINDING /verif/logs/$id.$TIER.log) known  $(tail -1 /verif/logs/$id.$TIER.log | cut -c1-160)"
done
