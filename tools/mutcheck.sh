#!/bin/sh
# usage: tools/mutcheck.sh <patch-file> <property-id> [tier]
# Applies a patch to a scratch copy of /repo (outside /repo and /verif), confirms the unedited
# test suite still passes there, then runs the property's check against the copy.
# Prints: MUT <patch> suite=<pass|FAIL> check_exit=<n>
export GOFLAGS=-mod=mod GOPROXY=off GOSUMDB=off GOTOOLCHAIN=local
P="$1"; ID="$2"; TIER="${3:-quick}"
T=$(mktemp -d /tmp/mutcheck.XXXXXX)
trap 'rm -rf "$T"' EXIT
rsync -a --exclude .git /repo/ "$T/repo/"
( cd "$T/repo" && patch -p1 -s < "$P" ) || { echo "MUT $P patch-failed"; exit 3; }
if [ -z "$SKIP_SUITE" ]; then
  if ( cd "$T/repo" && go test -vet=off -count=1 ./... >"$T/suite.log" 2>&1 ); then S=pass; else S=FAIL; fi
else S=skipped; fi
VERIF_EVIDENCE_DIR="$T/evidence" VERIF_REPO="$T/repo" /verif/bin/gosymex check -prop "$ID" -tier "$TIER" > "$T/check.log" 2>&1
E=$?
grep -E "VIOLATION|ENGINE-MISMATCH|INCONCLUSIVE|KNOWN-FINDING|violation witness" "$T/check.log" | head -8
echo "MUT $(basename $P) prop=$ID suite=$S check_exit=$E"
