#!/bin/sh
# usage: tools/calib.sh <tier> <timeout-s> [property ids...]  : wall time of every harness of the tier, one at a time
TIER=$1; TO=$2; shift; shift
IDS="$@"; [ -z "$IDS" ] && IDS="C01 C02 C03 C04 C05 C06 C07 C08 C09 C10 C11 C12 C13 C14 C15 C16 C17 C18 C19"
for id in $IDS; do
  HS=$(python3 -c "
import json;c=json.load(open('/verif/harness/checks.json'))['$id'];print(' '.join(c['harnesses']+(c.get('thorough',[]) if '$TIER'=='thorough' else [])))")
  for h in $HS; do
    s=$(date +%s)
    out=$(timeout $TO /verif/bin/gosymex run -h $h -tier $TIER -show 0 2>&1 | grep "^harness\|end\[fail\|end\[panic\|end\[unsupp\|INCONC" | tr '\n' ' ' | cut -c1-230)
    e=$(( $(date +%s) - s ))
    [ -z "$out" ] && out="TIMEOUT/none"
    echo "$id $h ${e}s $out"
  done
done
