#!/bin/sh
# usage: tools/seedmatrix.sh [seed-dir-names...]
# Runs, for every seeded change under /verif/seeded (and every revert-fix mutant), the quick check of the
# property it was written against, in a scratch copy of /repo; records the outcome in /verif/seeded/MATRIX.tsv
# and in each meta.json (detected_by).
cd /verif
OUT=/verif/seeded/MATRIX.tsv
SEEDS="$@"; [ -z "$SEEDS" ] && SEEDS=$(ls /verif/seeded | grep -E '^C[0-9]+-[0-9]+$')
for s in $SEEDS; do
  id=${s%-*}
  r=$(SKIP_SUITE=1 tools/mutcheck.sh /verif/seeded/$s/patch.diff $id quick 2>&1 | grep "^MUT" )
  e=$(echo "$r" | sed 's/.*check_exit=//')
  h=$(ls -t /verif/replays/ 2>/dev/null | head -1)
  echo "$s	$id	exit=$e	$(date +%H:%M:%S)"
  python3 - "$s" "$id" "$e" <<'PY'
import json,sys
s,pid,e=sys.argv[1:4]
p='/verif/seeded/%s/meta.json'%s
m=json.load(open(p))
det=[d for d in m.get('detected_by',[]) if not d.startswith(pid+' ')]
det.append("%s quick: %s"%(pid,{'1':'detected (exit 1, VIOLATION reproduced natively)','0':'MISSED (exit 0)','2':'inconclusive (exit 2)'}.get(e,'exit '+e)))
m['detected_by']=det
m['what_i_ran']="tools/mutcheck.sh seeded/%s/patch.diff %s quick (scratch copy of /repo under /tmp, VERIF_REPO pointed at it, removed afterwards)"%(s,pid)
json.dump(m,open(p,'w'),indent=1)
PY
done | tee -a $OUT
