#!/bin/sh
# Re-decides a fixed set of harnesses with the three installed back ends and compares the
# outcome (paths per end kind). usage: tools/crosssolver.sh
H="url.VerifC10SetTables,url.VerifC10Derive,url.VerifC10EncodeRune,url.VerifC15Hosts,url.VerifC08HostBrackets,url.VerifC07HostIPv4Ascii,url.VerifC11SortAbsolute,canonicalizer.VerifC16RemoveX"
for s in z3 z3-new cvc5; do
  VERIF_SOLVER=$s /verif/bin/gosymex run -h $H -show 0 2>&1 | grep "^harness\|end\[\|INCONCLUSIVE" | sed 's/wall=[0-9.]*s //; s/maxSteps=[0-9]* //' > /tmp/cross.$s.txt
done
if cmp -s /tmp/cross.z3.txt /tmp/cross.z3-new.txt && cmp -s /tmp/cross.z3.txt /tmp/cross.cvc5.txt; then
  echo "CROSS-SOLVER OK: z3 4.8.12, z3 5.1.0 and cvc5 1.0.3 agree on $(grep -c ^harness /tmp/cross.z3.txt) harnesses ($(grep ^harness /tmp/cross.z3.txt | sed 's/.*paths=\([0-9]*\).*/\1/' | paste -sd+ | bc) paths)"; r=0
else
  echo "CROSS-SOLVER DISAGREEMENT"; diff /tmp/cross.z3.txt /tmp/cross.z3-new.txt; diff /tmp/cross.z3.txt /tmp/cross.cvc5.txt; r=1
fi
rm -f /tmp/cross.*.txt; exit $r
