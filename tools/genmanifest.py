#!/usr/bin/env python3
# Regenerates /verif/MANIFEST.json from harness/checks.json (the single registry of checks).
import json
V='/verif'
import re,glob
specs=json.load(open(V+'/harness/checks.json'))
# the exact bound parameters, read from the harness sources: one machine-made bounds line per property,
# refreshed on every run, authoritative where a number in the prose lines has drifted
params={}
for f in sorted(glob.glob(V+'/harness/url/*.go')+glob.glob(V+'/harness/canonicalizer/*.go')):
    for name,q,t in re.findall(r'vnd\.Param\("([A-Za-z0-9.]+)", (\d+), (\d+)\)', open(f).read()):
        params[name]=(q,t)
MARK='bound parameters as read from the harness sources (name=quick/thorough; authoritative where a number above differs): '
for pid,sp in specs.items():
    if 'bounds' not in sp: continue
    sp['bounds']=[b for b in sp['bounds'] if not b.startswith(MARK)]
    own=[n for n in sorted(params) if n.startswith(pid+'.')]
    # harnesses borrowed from other properties
    for h in sp.get('harnesses',[])+sp.get('thorough',[]):
        m=re.search(r'Verif(C\d\d)',h)
        if m and m.group(1)!=pid:
            own+=[n for n in sorted(params) if n.startswith(m.group(1)+'.') and n not in own]
    if own:
        sp['bounds'].append(MARK+', '.join('%s=%s/%s'%(n,params[n][0],params[n][1]) for n in own))
json.dump(specs,open(V+'/harness/checks.json','w'),indent=1,ensure_ascii=False)
props=[json.loads(l) for l in open(V+'/properties.jsonl')]
na_reason={
 'C20':"not applicable to this technique: the quantifier is over input length and the observable is allocation/time growth at kilobyte sizes; bounded symbolic execution unrolls loops with the input and does not model the allocator (DESIGN.md §7)",
}
checks=[];na=[]
for p in props:
    pid=p['id']
    if pid in specs and not specs[pid].get('disabled'):
        s=specs[pid]
        checks.append({
         "property_id":pid,
         "quick_cmd":"./check %s quick"%pid,
         "thorough_cmd":"./check %s thorough"%pid,
         "evidence_file":"/verif/evidence/%s.json"%pid,
         "replay_cmd_template":"./check replay {path}",
         "engine":"gosymex",
         "level_claimed":{"category":"model_checking",
           "text":"bounded symbolic model checking of the real code: gosymex executes the go/ssa form of /repo's working tree (url, canonicalizer, errors, bitset, strconv) on symbolic input bytes; z3 decides the feasibility of every path and every property assertion for all byte values inside the stated windows/histories; every reported violation is a solver witness replayed against the natively compiled code. Bounds: "+"; ".join(s.get('bounds',[]))[:1500],
           "design_ref":"DESIGN.md §6 "+pid},
         "level_note":"trusted: go/ssa lowering, the engine's interpreter and intrinsics (validated by pushing the repo's 820+247 WPT vectors through the interpreter and by native replay of sampled paths on every run), the IDNA/regexp stubs, z3. Outside the claim: "+"; ".join(s.get('outside',[]))[:1000],
         "technique":"SSA-level bounded symbolic execution + SMT (QF_BV, z3) with native witness replay"})
    else:
        na.append({"property_id":pid,"reason":na_reason.get(pid,"check not built yet (in progress)")})
m={"version":1,
 "setup_cmd":"cd /verif && ./setup.sh",
 "hooks":{"guard":"verif","enable":"harness sources under /verif/harness are injected with `-tags verif -overlay` (go/packages Overlay for the engine, `go test -overlay` for native replay); no hook commits exist in /repo","baseline_off_cmd":"cd /repo && go test -vet=off -count=1 ./...","source_commits":[],"add_only":True},
 "engines":[{"name":"gosymex","path":"/verif/engine","serves_properties":[c['property_id'] for c in checks],"kind_free_text":"SSA-level symbolic executor for Go written for this task (go/ssa + z3 -in, QF_BV): concrete-length strings with symbolic bytes, forking path exploration with callee summaries, native replay of witnesses through go test -overlay"}],
 "checks":checks,
 "notes":"exit 0 = held on everything explored; exit 1 + VIOLATION line = violation reproduced natively; exit 2 = inconclusive (unsupported construct, solver unknown, engine/native mismatch, vacuous harness). Repaired defects are listed as fixed: entries in /verif/known-findings.json.",
 "not_applicable":na}
json.dump(m,open(V+'/MANIFEST.json','w'),indent=1)
print("checks:",[c['property_id'] for c in checks]," n/a:",len(na))
