#!/bin/sh
# usage: tools/mutants.sh   : every regression mutant under /verif/mutants against the quick check that must catch it
cd /verif
while read p id; do
  r=$(SKIP_SUITE=1 tools/mutcheck.sh /verif/mutants/$p $id quick 2>&1 | grep "^MUT")
  echo "$p	$id	$(echo "$r" | sed 's/.*check_exit=/exit=/')"
done <<LIST
C10-fragment-pipe.patch C10
C14-locked-write-unlocked-read.patch C14
C14-once-lazy-table.patch C14
revert-fix-clone.patch C13
revert-fix-derived-accessors.patch C19
revert-fix-endsinanumber-probe.patch C15
revert-fix-file-slash-guard.patch C02
revert-fix-invalid-byte-offset.patch C02
revert-fix-ipv4-sign.patch C07
revert-fix-ipv6-brackets.patch C08
revert-fix-nil-host-protocol.patch C02
revert-fix-sort-code-units.patch C11
revert-fix-special-fragment-set.patch C16
LIST
