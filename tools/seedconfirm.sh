#!/bin/sh
# usage: tools/seedconfirm.sh <seed-dir> <n> <property-id>
# Confirms a seeded change independently (in a scratch copy outside /repo and /verif):
#   suite passes with the change; demo fails with it and passes without it.
# On success stores it as /verif/seeded/<id>-<n>/{patch.diff,demo_test.go,meta.json}.
export GOFLAGS=-mod=mod GOPROXY=off GOSUMDB=off GOTOOLCHAIN=local
D="$1"; N="$2"; ID="$3"; ON="${4:-$2}"
P="$D/patch$N.diff"; DEMO="$D/demo${N}_test.go"
[ -f "$P" ] && [ -f "$DEMO" ] || { echo "missing $P or $DEMO"; exit 3; }
PKG=url
if grep -q "^package canonicalizer" "$DEMO"; then PKG=canonicalizer; fi
T=$(mktemp -d /tmp/seedconfirm.XXXXXX)
trap 'rm -rf "$T"' EXIT
rsync -a --exclude .git /repo/ "$T/clean/"
rsync -a --exclude .git /repo/ "$T/mut/"
( cd "$T/mut" && patch -p1 -s < "$P" ) || { echo "SEED $ID-$N patch does not apply"; exit 3; }
( cd "$T/mut" && go build ./... && go test -vet=off -count=1 ./... > "$T/suite.log" 2>&1 ) && SUITE=pass || SUITE=FAIL
cp "$DEMO" "$T/mut/$PKG/zz_demo_test.go"; cp "$DEMO" "$T/clean/$PKG/zz_demo_test.go"
RACE=""; grep -q "race" "$D/notes.md" 2>/dev/null && [ "$ID" = "C14" ] && RACE="-race"
( cd "$T/mut" && go test $RACE -vet=off -count=1 -run "TestSeeded${ID}_$N" ./$PKG/ > "$T/demo_mut.log" 2>&1 ) && DM=pass || DM=FAIL
( cd "$T/clean" && go test $RACE -vet=off -count=1 -run "TestSeeded${ID}_$N" ./$PKG/ > "$T/demo_clean.log" 2>&1 ) && DC=pass || DC=FAIL
echo "SEED $ID-$ON suite_with_change=$SUITE demo_with_change=$DM demo_clean=$DC pkg=$PKG race=$RACE"
if [ "$SUITE" = pass ] && [ "$DM" = FAIL ] && [ "$DC" = pass ]; then
  O=/verif/seeded/$ID-$ON; mkdir -p "$O"
  cp "$P" "$O/patch.diff"; cp "$DEMO" "$O/demo_test.go"
  python3 - "$O" "$ID" "$ON" "$PKG" "$RACE" "$D/notes.md" <<'PY'
import json,sys,re
o,pid,n,pkg,race,notes=sys.argv[1:7]
txt=open(notes).read() if notes else ''
json.dump({"property":pid,"seed":int(n),"demo_package":pkg,"demo_race":bool(race),
 "confirmed":{"suite_with_change":"pass","demo_with_change":"FAIL","demo_clean":"pass",
   "how":"tools/seedconfirm.sh: scratch copies of /repo under /tmp (removed afterwards); go test -vet=off -count=1 ./... with the patch; demo copied into the package dir and run with and without the patch"},
 "needs_to_manifest":"see notes.md","detected_by":[]},open(o+'/meta.json','w'),indent=1)
open(o+'/notes.md','w').write(txt)
PY
  exit 0
fi
tail -5 "$T/suite.log" "$T/demo_mut.log" "$T/demo_clean.log" 2>/dev/null | cut -c1-200
exit 1
